#!/usr/bin/env python3
"""Runs the repository's pinned test suite (guard off) and compares the set of passing
tests with /root/.vp/BASELINE.json stable_pass. Exit 0 iff every baseline test still
passes. REPO_DIR selects another checkout (default /repo)."""
import json, subprocess, sys, os
repo = os.environ.get("REPO_DIR", "/repo")
env = dict(os.environ, GOFLAGS="-mod=mod", GOPROXY="off", GOSUMDB="off", GOTOOLCHAIN="local")
p = subprocess.run(["go", "test", "-json", "-vet=off", "-count=1", "-timeout", "25m", "./..."], cwd=repo, env=env, capture_output=True, text=True)
passed = set()
failed = set()
for line in p.stdout.splitlines():
    try:
        ev = json.loads(line)
    except Exception:
        continue
    if ev.get("Test") and ev.get("Action") in ("pass", "fail"):
        name = ev["Package"] + "::" + ev["Test"]
        (passed if ev["Action"] == "pass" else failed).add(name)
base = set(json.load(open("/root/.vp/BASELINE.json"))["stable_pass"])
missing = sorted(base - passed)
print("passed=%d failed=%d baseline=%d missing_from_pass=%d" % (len(passed), len(failed), len(base), len(missing)))
for m in missing[:20]:
    print("  MISSING", m)
sys.exit(1 if missing else 0)
