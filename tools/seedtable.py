#!/usr/bin/env python3
"""Prints the markdown table of seeded changes (for DESIGN.md section 7) from /verif/seeded/*/meta.json."""
import json, glob, os
rows = []
for f in sorted(glob.glob('/verif/seeded/*/meta.json')):
    m = json.load(open(f))
    caught = [p for p, d in m.get('detection', {}).items() if d.get('exit') == 1]
    missed = [p for p, d in m.get('detection', {}).items() if d.get('exit') == 0]
    rules = []
    for p in caught:
        ls = m['detection'][p].get('lines', [])
        r = [l.strip().split(' ')[0].replace('rule=', '') for l in ls if l.strip().startswith('rule=')]
        if r:
            rules.append(r[0])
    replay = all(d.get('replay_exit', 1) == 1 for p, d in m.get('detection', {}).items() if d.get('exit') == 1)
    rows.append((m['name'], 'yes' if m.get('confirmed') else 'NO', ', '.join(caught) or '-', ', '.join(rules), ', '.join(missed) or '-', 'yes' if replay else 'no', m.get('needs', '')))
print('| seeded change | confirmed | caught by (quick) | first rule | run but silent | replay reproduces | needs |')
print('|---|---|---|---|---|---|---|')
for r in rows:
    print('| ' + ' | '.join(r) + ' |')
