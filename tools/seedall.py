#!/usr/bin/env python3
"""Re-runs the quick checks against every kept seeded change (detection only; the changes
were confirmed when they were first kept). Applies each patch to a scratch worktree of
/repo HEAD (never to /repo itself: a killed run once left a seeded change behind in /repo's
working tree), runs the checks listed in meta.json 'breaks' with VERIF_REPO pointing there,
undoes the patch, updates meta.json 'detection'.

usage: seedall.py [name-prefix ...]"""
import json, os, subprocess, sys, glob, time

ENV = dict(os.environ, GOFLAGS="-mod=mod", GOPROXY="off", GOSUMDB="off", GOTOOLCHAIN="local", VERIF_NO_EVIDENCE="1")
# SEED_REPO: apply the patches to this checkout (e.g. the repo snapshot of a `vp run --with-repo`)
# instead of a scratch worktree made here.  /repo itself is refused.
OWN = "SEED_REPO" not in os.environ
REPO = os.environ.get("SEED_REPO", "/tmp/seedrepo-all-%d" % os.getpid())
VERIF = os.path.dirname(os.path.dirname(os.path.abspath(__file__)))
assert os.path.realpath(REPO) != "/repo", "seeded changes are never applied to /repo itself"
ENV["VERIF_REPO"] = REPO


def sh(cmd, cwd=None):
    p = subprocess.run(cmd, shell=True, cwd=cwd, env=ENV, capture_output=True, text=True)
    return p.returncode, p.stdout + p.stderr


def main():
    want = sys.argv[1:]
    if OWN:
        sh("git -C /repo worktree prune")
        rc, out = sh("git -C /repo worktree add --detach %s HEAD" % REPO)
        assert rc == 0, out
    try:
        run(want)
    finally:
        if OWN:
            sh("git -C /repo worktree remove --force %s" % REPO)


def run(want):
    rc, out = sh("git -C %s status --porcelain" % REPO)
    assert out.strip() == "", REPO + " not clean: " + out
    summary = []
    for d in sorted(glob.glob(os.path.join(VERIF, "seeded", "*"))):
        name = os.path.basename(d)
        if want and not any(name.startswith(w) for w in want):
            continue
        mp = os.path.join(d, "meta.json")
        if not os.path.exists(mp):
            continue
        meta = json.load(open(mp))
        rc, out = sh("git -C %s apply %s" % (REPO, os.path.join(d, "patch.diff")))
        if rc != 0:
            print(name, "patch no longer applies:", out.strip()[:200])
            continue
        try:
            meta.setdefault("detection", {})
            caught = []
            for p in meta.get("breaks", []):
                t0 = time.time()
                rc, out = sh("./check.sh %s quick" % p, cwd=VERIF)
                lines = [l for l in out.splitlines() if l.startswith("VIOLATION") or l.strip().startswith("rule=")]
                meta["detection"][p] = {"exit": rc, "lines": lines[:6], "wall_s": round(time.time() - t0, 1)}
                if rc == 1:
                    caught.append(p)
                for l in lines:
                    if l.startswith("VIOLATION") and "replay=" in l:
                        rrc, _ = sh("./check.sh replay %s" % l.split("replay=")[1].strip(), cwd=VERIF)
                        meta["detection"][p]["replay_exit"] = rrc
                        break
            print("%-45s caught by %s" % (name, caught or "NOTHING"))
            summary.append((name, caught))
        finally:
            sh("git -C %s checkout -- ." % REPO)
        json.dump(meta, open(mp, "w"), indent=1)
    rc, out = sh("git -C %s status --porcelain" % REPO)
    assert out.strip() == "", REPO + " not restored: " + out
    missed = [n for n, c in summary if not c]
    print("seeded changes: %d, caught: %d, missed: %s" % (len(summary), len(summary) - len(missed), missed))


if __name__ == "__main__":
    main()
