#!/bin/bash
# Runs every claimed quick check on the current /repo working tree; prints one line each.
# exit 0 iff every check exits 0.
cd "$(dirname "$0")/.." || exit 2
TIER="${1:-quick}"
bad=0
for p in C01 C02 C03 C04 C05 C06 C07 C08 C10 C11 C13 C14 C15 C16 C17 C18 C19 C20; do
  out=$(./check.sh $p $TIER 2>&1); rc=$?
  echo "$p exit=$rc $(echo "$out" | grep -E "^$p " | tail -1)"
  if [ $rc -ne 0 ]; then bad=1; echo "$out" | grep -E "VIOLATION|rule=|harness" | head -6; fi
done
exit $bad
