#!/usr/bin/env python3
"""Regenerates /verif/MANIFEST.json from the table below (kept next to the code so the
manifest never drifts from what is built)."""
import json, sys

BUILT = sys.argv[1:] if len(sys.argv) > 1 else None

NA = {
 "C09": "Pure function of (storage words, slot, offset, width, type id) at one instruction: no schedule, clock, fault or second party in the statement; every clause is reached by choosing operands, so it is not a deterministic-simulation target (DESIGN.md section 3). Its crashes are still caught by C03 and mis-filing by C10/C11.",
 "C12": "Relation between two programs (journal instruction vs. operand pops) on identical inputs; fee and stack effect are constants of one table entry; nothing can be injected or scheduled that the statement quantifies over (DESIGN.md section 3).",
}

CHECKS = {
 "C01": ("exploration", "Seeded simulation: the real EVM runs generated worlds next to go-ethereum v1.12.0 on equal pre-states; results, logs and state roots must agree fault-free, under gas-cut crash points (F1) and under host configuration axes (tracer on/off, join points on/off with nothing bound, wrapped/raw StateDB, interleaved executors). Sampling of programs, not proof.", "4 C01",
         "Trusts go-ethereum v1.12.0 core/vm + core/state as reference; Artela precompile addresses and journal opcodes excluded as non-standard.",
         "deterministic simulation: lock-step refinement vs reference interpreter + gas-cut fault injection + seeded interleaving"),
 "C02": ("exploration", "Same simulated runs, oracle on the two step streams: (pc, op, gas, cost, depth, error) per instruction, gas given/used per frame, refund, leftover; gas-limit cuts at -1/0/+1 of every top-frame intermediate gas value and sampled limits inside nested frames must stop both implementations at the same instruction.", "4 C02",
         "Trusts the reference; thorough tier enumerates all cuts of each sampled scenario, scenarios themselves are sampled.",
         "deterministic simulation: per-step gas refinement under enumerated gas-cut crash points"),
 "C03": ("exploration", "Seeded simulation with all fault kinds on: raw byte programs, adversarial journal operands and Artela precompile payloads; any recovered panic, swallowed panic reported by aspect-core's logger, worker death, or unclosed bookkeeping after return is a violation.", "4 C03",
         "Host fully initialised (the property's precondition); harness hangs are bounded by the C20 watchdog.",
         "deterministic simulation: crash monitor under fault injection (F1-F8) with adversarial operands"),
 "C04": ("fault_enumeration", "For each generated call tree every join-point firing position is failed in turn with every failure flavour (provider error generic/out-of-gas/revert; WASM Aspect trap/revert/out-of-gas), plus gas cuts; a rollback model at the StateDB seam (pre-image restore per failed frame scope) decides.", "4 C04",
         "Trusts go-ethereum StateDB journal; fault positions enumerated per scenario, scenarios sampled.",
         "deterministic simulation: enumerated join-point fault injection + rollback reference model at the StateDB seam"),
 "C05": ("fault_enumeration", "Event-grammar oracle over the recorded history (provider calls, aspect logger payloads, step/enter/exit events): exactly one pre and one post firing per code-running CALL, LIFO nesting, payload equality, none for precompiles/code-less/switched-off; each firing failed in turn.", "4 C05",
         "Real aspect-core dispatch and WASM runtime; provider and logger are simulator stubs.",
         "deterministic simulation: history grammar check under enumerated join-point faults"),
 "C06": ("fault_enumeration", "Gas conservation equations over recorded histories with WASM Aspects burning 0..more-than-available gas at subsets of firings, out-of-gas and trap flavours at every firing.", "4 C06",
         "Burn amounts taken from what aspect-core reports to the Aspect logger.",
         "deterministic simulation: gas-conservation invariants under enumerated Aspect gas-burn faults"),
 "C07": ("fault_enumeration", "Tree well-formedness invariants evaluated after every top-level return in runs with every failure kind at every join-point position, refusals (depth, balance, collision), gas cuts, re-entrancy and repeated invocations on one EVM.", "4 C07",
         "Attempt order taken from the recorder's own step stream.",
         "deterministic simulation: structural invariants after each execution under enumerated faults"),
 "C08": ("exploration", "Independent attempt log built from the step stream (operands and memory at each CALL/CREATE/CREATE2 step, caller-visible outcome at the next step) compared with the call tree; online aliasing monitor re-hashes recorded calldata at every later event.", "4 C08",
         "Observed quantities only; no gas rule re-implemented.",
         "deterministic simulation: shadow attempt log + online aliasing monitor under faults"),
 "C10": ("exploration", "Shadow journal driven by step/enter/exit events (storage address of the executing frame, innermost CALL/CREATE attempt index, value read at the StateDB seam) compared with the tracer's per-key per-index lists, failing frames included.", "4 C10",
         "Only full-word value journals and short strings are shadowed (decoding itself is C09, not claimed).",
         "deterministic simulation: shadow journal reference model over recorded histories"),
 "C11": ("exploration", "Generated and in-situ operation histories over the exported tracer API replayed against an executable two-map reference model, checked after every operation.", "4 C11",
         "Single-owner object: no schedule dimension; histories sampled.",
         "deterministic simulation: operation histories vs executable reference model"),
 "C13": ("exploration", "BlockContext.Transfer is wrapped by the simulator; balances observed at the seam around each transfer are compared with the balance journal per call index, under reverting frames and faults.", "4 C13",
         "Trusts go-ethereum StateDB balances.",
         "deterministic simulation: seam observation vs balance journal under faults"),
 "C14": ("exploration", "Host callbacks are the simulator's context store; payload templates and mutations over four call kinds and depths, host-callback faults (error/empty/large) injected; independent decoder + KV model decide.", "4 C14",
         "Independent ABI decoder written in the harness.",
         "deterministic simulation: KV reference model + host-callback fault injection"),
 "C15": ("exploration", "Transient storage vs go-ethereum v1.12.0 + EIP-1153 on transliterated programs; MCOPY vs an executable EIP-5656 model on the step stream; gas cuts and reverts at instruction boundaries; multi-transaction histories.", "4 C15",
         "Programs avoid code introspection so the opcode transliteration is unobservable.",
         "deterministic simulation: refinement vs reference + executable EIP model under gas-cut faults"),
 "C16": ("exploration", "K-fold repetition of each transaction in fresh EVMs, alone and interleaved with an unrelated journaling executor, across worker processes; canonical serialisation of results and every tracer query in returned order must be byte-identical. Go map order is amplified (8-child buckets), not controlled.", "4 C16",
         "Map iteration order cannot be seeded; replay of such a finding succeeds with probability 1-2^-60.",
         "deterministic simulation: repetition + seeded interleaving, determinism oracle on canonical serialisation"),
 "C17": ("exploration", "Seeded step-level interleaving of 2-4 EVM executors (extra EIPs, Aspects bound) must reproduce each executor's solo digest; Cancel injected at yield k with bounded-progress invariants; a -race free-running tier checks for data races.", "4 C17",
         "Race tier is not schedule-controlled (stated in DESIGN.md).",
         "deterministic simulation: seeded scheduler over executors + Cancel injection; race detector tier"),
 "C18": ("exploration", "Debug-tracer callback stream compared argument by argument with the reference; enter/exit balance monitor under join-point aborts; inherited tracers paired with upstream originals on the same scenarios.", "4 C18",
         "Trusts upstream tracers as reference.",
         "deterministic simulation: callback-stream refinement + paired tracer outputs under faults"),
 "C19": ("exploration", "Event streams from simulated runs (0-3 Aspects per join point, calls made inside Aspects, failures) and grammar-generated streams fed to the real call tracers; frame multiset / nesting / trace-address oracle from the recorder's own tree.", "4 C19",
         "Histories bounded in depth and width.",
         "deterministic simulation: generated + simulated event histories vs frame-accounting oracle"),
 "C20": ("exploration", "Per-instruction budgets on StateDB reads (enforced while the instruction runs) and allocated bytes, linear in the gas paid, under adversarial length fields.", "4 C20",
         "CPU time and hashing inside precompiles are out of scope (no seam).",
         "deterministic simulation: bounded-work watchdog in simulated steps"),
}

ALL = ["C%02d" % i for i in range(1, 21)]
built = BUILT if BUILT is not None else [p for p in ALL if p in CHECKS]

m = {
 "version": 1,
 "setup_cmd": "./setup.sh",
 "hooks": {
   "guard": "verif",
   "enable": "go build -tags verif (no guarded hook exists in /repo at present; every seam is an existing interface)",
   "baseline_off_cmd": "cd /repo && GOFLAGS=-mod=mod go test -json -vet=off -count=1 -timeout 25m ./...",
   "source_commits": [],
   "add_only": True,
 },
 "engines": [{"name": "artsim", "path": "sim/", "serves_properties": built,
              "kind_free_text": "deterministic simulator: seeded scheduler, scenario generator, seams (StateDB wrapper, provider, host callbacks, recorder), fault injection, oracles, minimiser, replay"}],
 "checks": [],
 "not_applicable": [],
 "notes": "All checks: exit 0 held, 1 VIOLATION line + replay file, 2 harness/build trouble. Replay: ./check.sh replay <file>. Known findings: known_findings.json.",
}
for p in ALL:
    if p in built:
        lvl, text, ref, note, tech = CHECKS[p]
        m["checks"].append({
          "property_id": p,
          "quick_cmd": "./check.sh %s quick" % p,
          "thorough_cmd": "./check.sh %s thorough" % p,
          "evidence_file": "evidence/%s.json" % p,
          "replay_cmd_template": "./check.sh replay {path}",
          "engine": "artsim",
          "level_claimed": {"category": lvl, "text": text, "design_ref": "DESIGN.md section " + ref},
          "level_note": note,
          "technique": tech,
        })
    elif p in NA:
        m["not_applicable"].append({"property_id": p, "reason": NA[p]})
    else:
        m["not_applicable"].append({"property_id": p, "reason": "check not built yet in this revision (planned, see DESIGN.md section 4); not claimed until it runs"})
json.dump(m, open("/verif/MANIFEST.json", "w"), indent=1)
print("built:", built)
