#!/usr/bin/env python3
"""Confirm a seeded change (from an independent sub-agent) and run our checks against it.

usage: seedcheck.py <name> <outdir> <demo-file> <test-regex> <pkg-dir> <PROP> [<PROP>...]

1. fresh scratch worktree of /repo HEAD (outside /repo and /verif), demo copied in:
   demo must PASS without the change, FAIL with it; module must build; the pinned suite
   must pass exactly as at baseline.
2. apply the patch to a second scratch worktree (never to /repo: a killed run once left a
   seeded change behind in /repo's working tree), run VERIF_REPO=<scratch> ./check.sh <PROP>
   quick for each PROP, remove the worktree.
3. keep everything as /verif/seeded/<name>/ (patch.diff, demo, meta.json).
"""
import json, os, shutil, subprocess, sys, time

ENV = dict(os.environ, GOFLAGS="-mod=mod", GOPROXY="off", GOSUMDB="off", GOTOOLCHAIN="local", VERIF_NO_EVIDENCE="1")


def sh(cmd, cwd=None, timeout=3600):
    p = subprocess.run(cmd, shell=True, cwd=cwd, env=ENV, capture_output=True, text=True, timeout=timeout)
    return p.returncode, p.stdout + p.stderr


def main():
    name, outdir, demo, regex, pkg = sys.argv[1:6]
    props = sys.argv[6:]
    patch = os.path.join(outdir, os.environ.get("PATCH_FILE", "patch.diff"))
    wt = "/tmp/confirm-" + name
    sh("git -C /repo worktree remove --force %s" % wt)
    rc, out = sh("git -C /repo worktree add --detach %s HEAD" % wt)
    assert rc == 0, out
    meta = {"name": name, "breaks": props, "patch": "patch.diff", "demo": os.path.basename(demo), "ran": []}
    try:
        os.makedirs(os.path.join(wt, pkg), exist_ok=True)
        shutil.copy(os.path.join(outdir, demo), os.path.join(wt, pkg, "demo_test.go" if not demo.endswith("_test.go") else os.path.basename(demo)))
        cmd ="go test -vet=off -count=1 -run '%s' ./%s/" % (regex, pkg)
        rc0, out0 = sh(cmd, cwd=wt)
        meta["ran"].append({"cmd": cmd, "tree": "unchanged", "exit": rc0})
        rc, out = sh("git apply %s" % patch, cwd=wt)
        assert rc == 0, "patch does not apply: " + out
        rcb, outb = sh("go build ./...", cwd=wt)
        meta["ran"].append({"cmd": "go build ./...", "tree": "changed", "exit": rcb})
        rc1, out1 = sh(cmd, cwd=wt)
        meta["ran"].append({"cmd": cmd, "tree": "changed", "exit": rc1})
        os.remove(os.path.join(wt, pkg, os.path.basename(demo)))
        rcs, outs = sh("REPO_DIR=%s python3 /verif/tools/baseline.py" % wt)
        meta["ran"].append({"cmd": "pinned suite vs BASELINE.json (guard off)", "tree": "changed", "exit": rcs, "out": outs.strip().splitlines()[-1] if outs.strip() else ""})
        meta["confirmed"] = (rc0 == 0 and rcb == 0 and rc1 != 0 and rcs == 0)
        print("confirm %s: demo unchanged=%d changed=%d build=%d suite=%d -> %s" % (name, rc0, rc1, rcb, rcs, "CONFIRMED" if meta["confirmed"] else "NOT CONFIRMED"))
        if not meta["confirmed"]:
            print(out0[-1500:]); print(out1[-1500:]); print(outs[-800:])
    finally:
        sh("git -C /repo worktree remove --force %s" % wt)
    # detection (one at a time: check.sh builds one shared binary; confirmations may run in
    # parallel).  The patch goes into a scratch worktree, /repo itself is never touched.
    import fcntl
    lk = open("/tmp/seedcheck.detect.lock", "w")
    fcntl.flock(lk, fcntl.LOCK_EX)
    det = "/tmp/seedrepo-" + name
    sh("git -C /repo worktree remove --force %s" % det)
    sh("git -C /repo worktree prune")
    rc, out = sh("git -C /repo worktree add --detach %s HEAD" % det)
    assert rc == 0, out
    ENV["VERIF_REPO"] = det
    meta["detection"] = {}
    try:
        rc, out = sh("git apply %s" % patch, cwd=det)
        assert rc == 0, out
        for p in props:
            t0 = time.time()
            rc, out = sh("./check.sh %s quick" % p, cwd="/verif")
            lines = [l for l in out.splitlines() if l.startswith("VIOLATION") or l.strip().startswith("rule=")]
            meta["detection"][p] = {"exit": rc, "lines": lines[:6], "wall_s": round(time.time() - t0, 1)}
            print("detect %s with %s quick: exit=%d %s" % (name, p, rc, (lines[1].strip() if len(lines) > 1 else "")))
            # the replay file must reproduce the violation in a fresh process (patch still applied)
            for l in lines:
                if l.startswith("VIOLATION") and "replay=" in l:
                    rp = l.split("replay=")[1].strip()
                    rrc, rout = sh("./check.sh replay %s" % rp, cwd="/verif")
                    meta["detection"][p]["replay_exit"] = rrc
                    print("  replay %s: exit=%d" % (os.path.basename(rp), rrc))
                    break
    finally:
        ENV.pop("VERIF_REPO", None)
        sh("git -C /repo worktree remove --force %s" % det)
    dst = "/verif/seeded/" + name
    os.makedirs(dst, exist_ok=True)
    shutil.copy(patch, os.path.join(dst, "patch.diff"))
    shutil.copy(os.path.join(outdir, demo), os.path.join(dst, os.path.basename(demo)))
    if os.path.exists(os.path.join(outdir, "README.md")):
        shutil.copy(os.path.join(outdir, "README.md"), os.path.join(dst, "AGENT-README.md"))
    elif os.path.exists(os.path.join(outdir, "NOTE.md")):
        shutil.copy(os.path.join(outdir, "NOTE.md"), os.path.join(dst, "AGENT-README.md"))
    old = {}
    mp =os.path.join(dst, "meta.json")
    if os.path.exists(mp):
        old = json.load(open(mp))
    old.update(meta)
    json.dump(old, open(mp, "w"), indent=1)


if __name__ == "__main__":
    main()
