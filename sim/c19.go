package main

// C19: the call tracer and the flat call tracer account for every EVM frame and every
// Aspect execution exactly once. Histories are (a) generated from a grammar of
// well-nested event streams (bounded depth and width, 0-3 Aspects per join point, 0-2
// calls inside an Aspect) and fed to the real tracers directly, and (b) produced by
// simulated runs of the real EVM with WASM Aspects that call back into it. The oracle
// is the tree the stream itself describes.

import (
	"encoding/json"
	"fmt"
	"math/big"
	"strings"

	atracers "github.com/artela-network/artela-evm/tracers"
	avm "github.com/artela-network/artela-evm/vm"
	actypes "github.com/artela-network/aspect-core/types"
	"github.com/ethereum/go-ethereum/common"
	"github.com/ethereum/go-ethereum/common/hexutil"
)

// event ops: A = [from, to, input/out, err, aspect]; N = [typ, gas, gasUsed|gasLeft, value, jp]
func genC19(seed uint64, tier string) *Scenario {
	r := NewRNG(seed)
	sc := &Scenario{Prop: "C19", Seed: seed, Fork: "Shanghai", Block: genBlock(r)}
	sc.Tracer = pick(r, []string{"callTracer", "callTracer", "flatCallTracer"})
	sc.TracerCfg = pick(r, nativeTracerCfgs[sc.Tracer])
	if r.P(1, 6) && tier != "" {
		// histories from simulation: real EVM, real WASM Aspects calling back into it
		t := genTreeScenario(seed, treeOpts{prop: "C19", bindProb: 70, aspectKind: "mixed", maxAspects: 3, callInside: true})
		t.Profile = "sim"
		t.Tracer, t.TracerCfg = sc.Tracer, sc.TracerCfg
		return t
	}
	sc.Profile = "grammar"
	maxDepth := 1 + r.Intn(4)
	nAddr := func() string { return fmt.Sprintf("0xaaaa%036x", 0x100+r.Intn(6)) }
	outErr := func() (string, string) {
		switch r.Intn(6) {
		case 0:
			return hx(r.Bytes(r.Intn(40))), "execution reverted"
		case 1:
			return "", "out of gas"
		case 2:
			return "", pick(r, []string{"invalid opcode: INVALID", "stack underflow (0 <=> 1)", "invalid jump destination", "binding store unavailable"})
		default:
			return hx(r.Bytes(r.Intn(40))), ""
		}
	}
	var aspects func(jp int64, depth int)
	var frame func(depth int, top bool)
	emitCalls := func(depth int, max int) {
		n := r.Intn(max + 1)
		for i := 0; i < n; i++ {
			frame(depth+1, false)
		}
	}
	aspects = func(jp int64, depth int) {
		n := pick(r, []int{0, 0, 1, 1, 2, 3})
		for i := 0; i < n; i++ {
			gas := uint64(10000 + r.Intn(90000))
			left := uint64(r.Intn(int(gas)))
			sc.Ops = append(sc.Ops, Op{K: "aenter", A: []string{nAddr(), nAddr(), hx(r.Bytes(r.Intn(36))), "", fmt.Sprintf("0xa5a5%036x", i+1)}, N: []uint64{0, gas, 0, uint64(r.Intn(3)), uint64(jp)}})
			if depth < maxDepth {
				emitCalls(depth, 2)
			}
			out, e := outErr()
			sc.Ops = append(sc.Ops, Op{K: "aexit", A: []string{"", "", out, e, ""}, N: []uint64{0, 0, left, 0, uint64(jp)}})
		}
	}
	frame = func(depth int, top bool) {
		typ := pick(r, []uint64{0xf1, 0xf1, 0xf1, 0xfa, 0xf4, 0xf2, 0xf0, 0xf5})
		if top {
			typ = pick(r, []uint64{0xf1, 0xf1, 0xf0})
		}
		gas := uint64(50000 + r.Intn(900000))
		used := uint64(r.Intn(int(gas)))
		val := uint64(r.Intn(3))
		k := "enter"
		if top {
			k = "start"
		}
		sc.Ops = append(sc.Ops, Op{K: k, A: []string{nAddr(), nAddr(), hx(r.Bytes(r.Intn(36))), "", ""}, N: []uint64{typ, gas, 0, val, 0}})
		hasJP := typ == 0xf1 && r.P(2, 3)
		if hasJP {
			aspects(int64(actypes.JoinPointRunType_PreContractCall), depth)
		}
		if depth < maxDepth {
			emitCalls(depth, 3)
		}
		if hasJP && r.P(3, 4) {
			aspects(int64(actypes.JoinPointRunType_PostContractCall), depth)
		}
		out, e := outErr()
		k = "exit"
		if top {
			k = "end"
		}
		sc.Ops = append(sc.Ops, Op{K: k, A: []string{"", "", out, e, ""}, N: []uint64{typ, 0, used, 0, 0}})
	}
	frame(0, true)
	return sc
}

// expected tree
type xFrame struct {
	typ      uint64
	from, to common.Address
	in, out  []byte
	gas      uint64
	used     uint64
	value    uint64
	err      string
	calls    []*xFrame
	jps      []*xAspect
	top      bool
}

type xAspect struct {
	jp       int64
	aspect   common.Address
	from, to common.Address
	in, out  []byte
	gas      uint64
	left     uint64
	err      string
	calls    []*xFrame
}

func parseOps(ops []Op) (*xFrame, bool) {
	var root *xFrame
	type ent struct {
		f *xFrame
		a *xAspect
	}
	var stack []ent
	for _, o := range ops {
		if len(o.A) < 5 || len(o.N) < 5 {
			return nil, false
		}
		switch o.K {
		case "start", "enter":
			f := &xFrame{typ: o.N[0], from: addr(o.A[0]), to: addr(o.A[1]), in: unhex(o.A[2]), gas: o.N[1], value: o.N[3], top: o.K == "start"}
			if o.K == "start" {
				if root != nil || len(stack) != 0 {
					return nil, false
				}
				root = f
			} else {
				if len(stack) == 0 {
					return nil, false
				}
				p := stack[len(stack)-1]
				if p.a != nil {
					p.a.calls = append(p.a.calls, f)
				} else {
					p.f.calls = append(p.f.calls, f)
				}
			}
			stack = append(stack, ent{f: f})
		case "end", "exit":
			if len(stack) == 0 || stack[len(stack)-1].f == nil {
				return nil, false
			}
			f := stack[len(stack)-1].f
			if f.top != (o.K == "end") {
				return nil, false
			}
			f.out, f.err, f.used = unhex(o.A[2]), o.A[3], o.N[2]
			stack = stack[:len(stack)-1]
		case "aenter":
			if len(stack) == 0 || stack[len(stack)-1].f == nil {
				return nil, false
			}
			a := &xAspect{jp: int64(o.N[4]), aspect: addr(o.A[4]), from: addr(o.A[0]), to: addr(o.A[1]), in: unhex(o.A[2]), gas: o.N[1]}
			f := stack[len(stack)-1].f
			f.jps = append(f.jps, a)
			stack = append(stack, ent{a: a})
		case "aexit":
			if len(stack) == 0 || stack[len(stack)-1].a == nil {
				return nil, false
			}
			a := stack[len(stack)-1].a
			if a.left > a.gas {
				return nil, false
			}
			a.out, a.err, a.left = unhex(o.A[2]), o.A[3], o.N[2]
			stack = stack[:len(stack)-1]
		default:
			return nil, false
		}
	}
	if root == nil || len(stack) != 0 {
		return nil, false
	}
	return root, true
}

type simpleErr string

func (e simpleErr) Error() string { return string(e) }

func mkErr(s string) error {
	switch s {
	case "":
		return nil
	case "execution reverted":
		return avm.ErrExecutionReverted
	case "out of gas":
		return avm.ErrOutOfGas
	}
	return simpleErr(s)
}

// feedOps drives a tracer with the event stream.
func feedOps(sc *Scenario, tr atracers.Tracer, env *avm.EVM, gasLimit uint64) (panicked string) {
	defer func() {
		if r := recover(); r != nil {
			if he, ok := r.(harnessErr); ok {
				panic(he)
			}
			panicked = fmt.Sprint(r)
		}
	}()
	al, _ := tr.(actypes.AspectLogger)
	var rootUsed uint64
	for _, o := range sc.Ops {
		switch o.K {
		case "start":
			tr.CaptureTxStart(gasLimit)
			tr.CaptureStart(env, addr(o.A[0]), addr(o.A[1]), o.N[0] == 0xf0, unhex(o.A[2]), o.N[1], new(big.Int).SetUint64(o.N[3]))
		case "enter":
			var v *big.Int
			if o.N[0] != 0xfa {
				v = new(big.Int).SetUint64(o.N[3])
			}
			tr.CaptureEnter(avm.OpCode(o.N[0]), addr(o.A[0]), addr(o.A[1]), unhex(o.A[2]), o.N[1], v)
		case "exit":
			tr.CaptureExit(unhex(o.A[2]), o.N[2], mkErr(o.A[3]))
		case "end":
			rootUsed = o.N[2]
			tr.CaptureEnd(unhex(o.A[2]), o.N[2], mkErr(o.A[3]))
			tr.CaptureTxEnd(gasLimit - rootUsed)
		case "aenter":
			if al == nil {
				panic(harnessErr("tracer is not an AspectLogger"))
			}
			g, bn, idx := o.N[1], sc.Block.Number, uint64(0)
			req := &actypes.PreContractCallInput{Call: &actypes.PreExecMessageInput{From: addr(o.A[0]).Bytes(), To: addr(o.A[1]).Bytes(), Index: &idx, Data: unhex(o.A[2]), Value: []byte{}, Gas: &g},
				Block: &actypes.BlockInput{Number: &bn}}
			al.CaptureAspectEnter(actypes.JoinPointRunType(o.N[4]), addr(o.A[0]), addr(o.A[1]), addr(o.A[4]), unhex(o.A[2]), o.N[1], new(big.Int).SetUint64(o.N[3]), req)
		case "aexit":
			al.CaptureAspectExit(actypes.JoinPointRunType(o.N[4]), &actypes.AspectExecutionResult{Gas: o.N[2], Ret: unhex(o.A[2]), Err: mkErr(o.A[3])})
		}
	}
	return ""
}

// JSON shapes of the tracer outputs
type jFrame struct {
	Type       string         `json:"type"`
	From       common.Address `json:"from"`
	To         *common.Address `json:"to"`
	Gas        hexutil.Uint64 `json:"gas"`
	GasUsed    hexutil.Uint64 `json:"gasUsed"`
	Input      hexutil.Bytes  `json:"input"`
	Output     hexutil.Bytes  `json:"output"`
	Error      string         `json:"error"`
	Calls      []jFrame       `json:"calls"`
	JoinPoints []jAspect      `json:"joinPoints"`
}

type jAspect struct {
	Type    string         `json:"type"`
	Aspect  common.Address `json:"aspect"`
	From    common.Address `json:"from"`
	To      common.Address `json:"to"`
	Gas     hexutil.Uint64 `json:"gas"`
	GasUsed hexutil.Uint64 `json:"gasUsed"`
	Input   hexutil.Bytes  `json:"input"`
	Output  hexutil.Bytes  `json:"output"`
	Error   string         `json:"error"`
	Calls   []jFrame       `json:"calls"`
}

type jFlat struct {
	Action struct {
		From     *common.Address `json:"from"`
		To       *common.Address `json:"to"`
		Aspect   *common.Address `json:"aspect"`
		CallType string          `json:"callType"`
		Input    *hexutil.Bytes  `json:"input"`
		Init     *hexutil.Bytes  `json:"init"`
		Gas      *hexutil.Uint64 `json:"gas"`
	} `json:"action"`
	Error        string `json:"error"`
	Subtraces    int    `json:"subtraces"`
	TraceAddress []int  `json:"traceAddress"`
	Type         string `json:"type"`
	Result       *struct {
		GasUsed *hexutil.Uint64 `json:"gasUsed"`
		Output  *hexutil.Bytes  `json:"output"`
	} `json:"result"`
}

var opNames = map[uint64]string{0xf1: "CALL", 0xf2: "CALLCODE", 0xf4: "DELEGATECALL", 0xfa: "STATICCALL", 0xf0: "CREATE", 0xf5: "CREATE2", 0xff: "SELFDESTRUCT"}

type c19cmp struct {
	vs     []Violation
	tracer string
	parity bool // error texts are converted to parity wording: only presence is compared
}

func (c *c19cmp) add(sig, format string, a ...interface{}) {
	c.vs = append(c.vs, Violation{Prop: "C19", Rule: "C19." + c.tracer, Sig: sig, Msg: fmt.Sprintf(format, a...)})
}

func (c *c19cmp) nested(path string, x *xFrame, j *jFrame, gasLimit uint64, onlyTop bool) {
	if j.Type != opNames[x.typ] {
		c.add("frame-type", "%s: type %s, stream says %s", path, j.Type, opNames[x.typ])
	}
	if j.From != x.from {
		c.add("frame-from", "%s: from %x, stream says %x", path, j.From, x.from)
	}
	wantGas, wantUsed := x.gas, x.used
	if x.top {
		wantGas, wantUsed = gasLimit, x.used
	}
	if uint64(j.Gas) != wantGas || uint64(j.GasUsed) != wantUsed {
		c.add("frame-gas", "%s: gas %d used %d, stream says gas %d used %d", path, j.Gas, j.GasUsed, wantGas, wantUsed)
	}
	if j.Error != x.err {
		c.add("frame-error", "%s: error %q, stream says %q", path, j.Error, x.err)
	}
	if x.err == "" && string(j.Output) != string(x.out) {
		c.add("frame-output", "%s: output %x, stream says %x", path, []byte(j.Output), x.out)
	}
	if string(j.Input) != string(x.in) {
		c.add("frame-input", "%s: input %x, stream says %x", path, []byte(j.Input), x.in)
	}
	if onlyTop {
		return
	}
	if len(j.Calls) != len(x.calls) {
		c.add("calls-count", "%s: %d calls emitted, the stream has %d calls issued by this frame", path, len(j.Calls), len(x.calls))
	}
	for i := 0; i < len(j.Calls) && i < len(x.calls); i++ {
		c.nested(fmt.Sprintf("%s.calls[%d]", path, i), x.calls[i], &j.Calls[i], gasLimit, false)
	}
	if len(j.JoinPoints) != len(x.jps) {
		c.add("joinpoints-count", "%s: %d Aspect executions emitted, the stream has %d on this frame", path, len(j.JoinPoints), len(x.jps))
	}
	for i := 0; i < len(j.JoinPoints) && i < len(x.jps); i++ {
		a, ja := x.jps[i], &j.JoinPoints[i]
		p := fmt.Sprintf("%s.joinPoints[%d]", path, i)
		if ja.Aspect != a.aspect || ja.From != a.from || ja.To != a.to || uint64(ja.Gas) != a.gas {
			c.add("aspect-identity", "%s: aspect %x from %x to %x gas %d; stream says aspect %x from %x to %x gas %d", p, ja.Aspect, ja.From, ja.To, ja.Gas, a.aspect, a.from, a.to, a.gas)
		}
		if uint64(ja.GasUsed) != a.gas-a.left {
			c.add("aspect-gasused", "%s: gasUsed %d; this Aspect execution used %d", p, ja.GasUsed, a.gas-a.left)
		}
		if ja.Error != a.err {
			c.add("aspect-error", "%s: error %q; this Aspect execution ended with %q", p, ja.Error, a.err)
		}
		if (a.err == "" || len(a.out) > 0) && string(ja.Output) != string(a.out) {
			c.add("aspect-output", "%s: output %x; this Aspect execution returned %x", p, []byte(ja.Output), a.out)
		}
		if len(ja.Calls) != len(a.calls) {
			c.add("aspect-calls-count", "%s: %d calls emitted, the stream has %d calls issued from inside this Aspect", p, len(ja.Calls), len(a.calls))
		}
		for k := 0; k < len(ja.Calls) && k < len(a.calls); k++ {
			c.nested(fmt.Sprintf("%s.calls[%d]", p, k), a.calls[k], &ja.Calls[k], gasLimit, false)
		}
	}
}

// flatExpect lists the expected frames in emission order with their trace addresses.
type flatWant struct {
	addr     []int
	subs     int
	isAspect bool
	f        *xFrame
	a        *xAspect
}

func flatExpect(x *xFrame, at []int, out *[]flatWant) {
	pre, post := 0, 0
	for _, a := range x.jps {
		if actypes.JoinPointRunType(a.jp).IsPreCall() {
			pre++
		} else {
			post++
		}
	}
	*out = append(*out, flatWant{addr: at, subs: pre + len(x.calls) + post, f: x})
	child := func(i int) []int { return append(append([]int{}, at...), i) }
	emitAspect := func(a *xAspect, ad []int) {
		*out = append(*out, flatWant{addr: ad, subs: len(a.calls), isAspect: true, a: a})
		for k, cc := range a.calls {
			flatExpect(cc, append(append([]int{}, ad...), k), out)
		}
	}
	n := 0
	for _, a := range x.jps {
		if actypes.JoinPointRunType(a.jp).IsPreCall() {
			emitAspect(a, child(n))
			n++
		}
	}
	for _, cc := range x.calls {
		flatExpect(cc, child(n), out)
		n++
	}
	for _, a := range x.jps {
		if !actypes.JoinPointRunType(a.jp).IsPreCall() {
			emitAspect(a, child(n))
			n++
		}
	}
}

func (c *c19cmp) flat(x *xFrame, got []jFlat) {
	var want []flatWant
	flatExpect(x, []int{}, &want)
	seen := map[string]bool{}
	for i, g := range got {
		k := fmt.Sprint(g.TraceAddress)
		if seen[k] {
			c.add("address-duplicate", "trace address %v emitted twice", g.TraceAddress)
		}
		seen[k] = true
		_ = i
	}
	for _, g := range got {
		if n := len(g.TraceAddress); n > 0 && !seen[fmt.Sprint(g.TraceAddress[:n-1])] {
			c.add("address-not-prefix-closed", "trace address %v has no parent frame", g.TraceAddress)
		}
	}
	// subtraces = number of emitted children
	kids := map[string]int{}
	for _, g := range got {
		if n := len(g.TraceAddress); n > 0 {
			kids[fmt.Sprint(g.TraceAddress[:n-1])]++
		}
	}
	for _, g := range got {
		if kids[fmt.Sprint(g.TraceAddress)] != g.Subtraces {
			c.add("subtraces", "frame %v reports %d sub-traces but %d children were emitted", g.TraceAddress, g.Subtraces, kids[fmt.Sprint(g.TraceAddress)])
		}
	}
	if len(got) != len(want) {
		c.add("frame-count", "%d frames emitted; the stream has %d frames and Aspect executions", len(got), len(want))
		return
	}
	for i := range want {
		w, g := want[i], got[i]
		if fmt.Sprint(g.TraceAddress) != fmt.Sprint(w.addr) {
			c.add("address", "frame %d emitted at %v; the stream places it at %v", i, g.TraceAddress, w.addr)
			continue
		}
		if w.isAspect {
			if g.Action.Aspect == nil || *g.Action.Aspect != w.a.aspect {
				c.add("aspect-identity", "frame %v is not the Aspect execution the stream has there", w.addr)
				continue
			}
			if g.Error != w.a.err && !(c.parity && (g.Error == "") == (w.a.err == "")) {
				c.add("aspect-error", "Aspect frame %v: error %q; that execution ended with %q", w.addr, g.Error, w.a.err)
			}
			if g.Result != nil && g.Result.GasUsed != nil && uint64(*g.Result.GasUsed) != w.a.gas-w.a.left {
				c.add("aspect-gasused", "Aspect frame %v: gasUsed %d; that execution used %d", w.addr, uint64(*g.Result.GasUsed), w.a.gas-w.a.left)
			}
			// the flat format drops the result of a failed frame unless it reverted (revert data is
			// information): an Aspect execution that succeeded or reverted keeps gas used and output
			if w.a.err == "" || w.a.err == "execution reverted" {
				switch {
				case g.Result == nil || g.Result.GasUsed == nil:
					c.add("aspect-result", "Aspect frame %v (ended with %q) carries no result: its gas used (%d) and output are lost", w.addr, w.a.err, w.a.gas-w.a.left)
				case g.Result.Output != nil && string(*g.Result.Output) != string(w.a.out) && (w.a.err == "" || len(w.a.out) > 0):
					c.add("aspect-output", "Aspect frame %v: output %x; that execution returned %x", w.addr, []byte(*g.Result.Output), w.a.out)
				}
			}
		} else {
			if g.Action.Aspect != nil {
				c.add("frame-kind", "frame %v is an Aspect frame; the stream has a call there", w.addr)
				continue
			}
			if g.Action.From == nil || *g.Action.From != w.f.from {
				c.add("frame-from", "frame %v: wrong caller", w.addr)
			}
			if g.Error != w.f.err && !(c.parity && (g.Error == "") == (w.f.err == "")) {
				c.add("frame-error", "frame %v: error %q; stream says %q", w.addr, g.Error, w.f.err)
			}
		}
	}
}

func c19Run(sc *Scenario, st *Stats) []Violation {
	if sc.Profile == "sim" {
		return c19Sim(sc, st)
	}
	root, ok := parseOps(sc.Ops)
	if !ok {
		return nil // not a well-nested stream (a minimisation candidate): outside the property's domain
	}
	var raw json.RawMessage
	if sc.TracerCfg != "" {
		raw = json.RawMessage(sc.TracerCfg)
	}
	tr, err := atracers.DefaultDirectory.New(sc.Tracer, &atracers.Context{}, raw)
	if err != nil {
		panic(harnessErr("tracer: " + err.Error()))
	}
	InstallHost()
	env := avm.NewEVM(sutBlockCtx(sc), avm.TxContext{}, nil, chainConfig(sc.Fork, sc.Block), avm.Config{})
	gasLimit := root.gas + 21000
	c := &c19cmp{tracer: sc.Tracer, parity: strings.Contains(sc.TracerCfg, `"convertParityErrors":true`)}
	st.Steps += len(sc.Ops)
	// shape
	hh := uint64(len(sc.TracerCfg))
	nAsp, nInside := 0, 0
	var walk func(f *xFrame, inAsp bool)
	walk = func(f *xFrame, inAsp bool) {
		hh = mix64(hh ^ f.typ ^ uint64(len(f.calls))<<8 ^ uint64(len(f.jps))<<16)
		if inAsp {
			nInside++
		}
		for _, a := range f.jps {
			nAsp++
			hh = mix64(hh ^ uint64(a.jp) ^ uint64(len(a.calls))<<4)
			for _, cc := range a.calls {
				walk(cc, true)
			}
		}
		for _, cc := range f.calls {
			walk(cc, false)
		}
	}
	walk(root, false)
	st.Shape(hh, len(sc.Ops) >= 4)
	if nAsp > 0 {
		st.Probes["stream-with-aspect-executions"]++
	}
	if nInside > 0 {
		st.Probes["stream-with-call-inside-aspect"]++
	}
	if p := feedOps(sc, tr, env, gasLimit); p != "" {
		c.add("panic", "tracer panicked while consuming a well-nested stream: %s", p)
		return c.vs
	}
	res, err := tr.GetResult()
	if err != nil {
		c.add("getresult", "GetResult failed on a well-nested stream: %v", err)
		return c.vs
	}
	onlyTop := strings.Contains(sc.TracerCfg, `"onlyTopCall":true`)
	switch sc.Tracer {
	case "callTracer":
		var j jFrame
		if err := json.Unmarshal(res, &j); err != nil {
			c.add("json", "result is not decodable: %v", err)
			return c.vs
		}
		c.nested("root", root, &j, gasLimit, onlyTop)
	case "flatCallTracer":
		var fl []jFlat
		if err := json.Unmarshal(res, &fl); err != nil {
			c.add("json", "result is not decodable: %v", err)
			return c.vs
		}
		c.flat(root, fl)
	}
	if len(c.vs) > 3 {
		c.vs = c.vs[:3]
	}
	return c.vs
}

// c19Sim: the same oracle on histories produced by the real EVM and real WASM Aspects.
func c19Sim(sc *Scenario, st *Stats) []Violation {
	l := NewLog()
	e := NewSutEnv(sc, 0, l, true)
	var trs []atracers.Tracer
	e.InnerTracer = func(i int) (avm.EVMLogger, interface{}) {
		var raw json.RawMessage
		if sc.TracerCfg != "" {
			raw = json.RawMessage(sc.TracerCfg)
		}
		tr, err := atracers.DefaultDirectory.New(sc.Tracer, &atracers.Context{}, raw)
		if err != nil {
			panic(harnessErr("tracer: " + err.Error()))
		}
		trs = append(trs, tr)
		return tr, nil
	}
	e.RunAll()
	st.AbsorbLog(l)
	h, steps := shapeHash(l)
	st.Shape(h, steps >= 5)
	c := &c19cmp{tracer: sc.Tracer}
	for _, s := range drainSwallowed() {
		c.add("panic-swallowed/"+swallowedSite(s), "tracer panicked inside a join point (swallowed by aspect-core, the Aspect is reported as crashed): %s", repoFrames(s))
	}
	for i, r := range e.Results {
		if r.Panic != "" {
			c.add("panic/"+r.PanicSite, "tx %d panicked: %s", i, r.Panic)
		}
	}
	if len(c.vs) > 0 {
		return c.vs
	}
	hist := BuildHistory(l.Evs, 0)
	onlyTop := strings.Contains(sc.TracerCfg, `"onlyTopCall":true`)
	ti := 0
	for _, rootF := range hist.Roots {
		if ti >= len(trs) || ti >= len(e.Results) {
			break
		}
		x := frameToX(rootF)
		res, err := trs[ti].GetResult()
		gasLimit := sc.Execs[0].Txs[rootF.Tx].gas(sc, 0, rootF.Tx)
		x.used = gasLimit - e.Results[rootF.Tx].GasLeft
		ti++
		if err != nil {
			c.add("getresult", "GetResult failed after a real execution: %v", err)
			continue
		}
		for _, f := range hist.Frames {
			if f.FromAspect {
				st.Probes["sim-call-inside-aspect"]++
			}
		}
		switch sc.Tracer {
		case "callTracer":
			var j jFrame
			if json.Unmarshal(res, &j) == nil {
				c.nested("root", x, &j, gasLimit, onlyTop)
			}
		case "flatCallTracer":
			var fl []jFlat
			if json.Unmarshal(res, &fl) == nil && !strings.Contains(sc.TracerCfg, "includePrecompiles") {
				// precompile calls are dropped by default: only structural checks on real runs
				cc := &c19cmp{tracer: sc.Tracer}
				cc.flat(x, fl)
				for _, v := range cc.vs {
					if v.Sig == "subtraces" || v.Sig == "address-duplicate" || v.Sig == "address-not-prefix-closed" {
						c.vs = append(c.vs, v)
					}
				}
			}
		}
	}
	if len(c.vs) > 3 {
		c.vs = c.vs[:3]
	}
	return c.vs
}

// repoFrames: the panic value and the /repo frames of a swallowed-panic record.
func repoFrames(s string) string {
	lines := strings.Split(s, "\n")
	var out []string
	if len(lines) > 0 {
		out = append(out, lines[0])
	}
	for i, l := range lines {
		if strings.HasPrefix(strings.TrimSpace(l), repoPrefix) && i > 0 {
			fn := strings.TrimSpace(lines[i-1])
			if p := strings.LastIndex(fn, "("); p > 0 {
				fn = fn[:p]
			}
			out = append(out, fn+" "+strings.TrimSpace(l))
		}
	}
	if len(out) > 8 {
		out = out[:8]
	}
	return strings.Join(out, " | ")
}

func frameToX(f *Frame) *xFrame {
	x := &xFrame{typ: uint64(f.Typ), from: f.From, to: f.To, in: f.In, out: f.Out, gas: f.Gas, used: f.GasUsed, err: f.Err, top: f.Top}
	// aspect executions in order, each owning the frames issued between its enter and exit
	for i, ai := range f.AspIn {
		a := &xAspect{jp: ai.JP, aspect: ai.Aspect, from: ai.From, to: ai.To, in: ai.In, gas: ai.Gas}
		endSeq := 1 << 60
		if i < len(f.AspOut) {
			ao := f.AspOut[i]
			a.left, a.out, a.err = ao.Gas, ao.Out, ao.Err
			endSeq = ao.Seq
		}
		for _, k := range f.Kids {
			if k.FromAspect && k.EnterSeq > ai.Seq && k.EnterSeq < endSeq {
				a.calls = append(a.calls, frameToX(k))
			}
		}
		x.jps = append(x.jps, a)
	}
	for _, k := range f.Kids {
		if !k.FromAspect {
			x.calls = append(x.calls, frameToX(k))
		}
	}
	return x
}

func init() {
	register(&Check{ID: "C19", Level: "exploration",
		Rule:   "grammar-generated well-nested streams over {tx start/end, start/end, enter/exit, aspect enter/exit}: depth <= 4, <= 3 calls per frame, 0-3 Aspects per join point (pre and post), 0-2 calls inside an Aspect, failing frames and Aspects, fed to callTracer (only-top-call, with-log) and flatCallTracer (parity errors, include-precompiles); plus one run in six from simulation (real EVM, real WASM Aspects calling back into the EVM); oracle = the tree the stream describes: every frame once under its issuer, per-Aspect gas/output/error, sub-trace counts, unique prefix-closed trace addresses; distinct = hash of the tree shape",
		Assume: []string{"histories bounded in depth and width", "single-owner tracer objects: no schedule dimension"},
		Real:   []string{"/repo/tracers/native callTracer, flatCallTracer (+ generated JSON marshalling)", "for the simulated share: /repo/vm, aspect-core, WASM runtime"},
		Stub:   []string{"event source = grammar (5 of 6 runs)"}, Gen: genC19, Run: c19Run})
}
