package main

// C20 runner: recorder in counters-only mode and log in digest-only mode, so that the
// harness itself allocates next to nothing inside the measured windows.

import (
	"fmt"
	"hash/fnv"
)

func c20Run(sc *Scenario, st *Stats) []Violation {
	l := NewLog()
	l.lite = true
	env := NewSutEnv(sc, 0, l, true)
	env.Rec.Light = true
	var vs []Violation
	sh := fnv.New64a()
	steps := 0
	env.DB.ReadBudget = readBudget(0)
	allocOpen, allocStart, allocSeq := false, uint64(0), 0
	var allocOp byte
	var allocCost uint64
	var allocMem int
	closeAlloc := func() {
		if !allocOpen {
			return
		}
		allocOpen = false
		if d := memTotalAlloc() - allocStart; d > allocBudget(allocCost, allocMem) {
			vs = append(vs, Violation{Prop: "C20", Rule: "C20.alloc", Sig: siteOfOp(allocOp), Seq: allocSeq,
				Msg: fmt.Sprintf("instruction %s (cost %d gas, memory %d bytes) made the VM allocate %d bytes before the next instruction", siteOfOp(allocOp), allocCost, allocMem, d)})
		}
	}
	watched := func(op byte) bool {
		switch op {
		case 0x20, 0x37, 0x39, 0x3c, 0x3e, 0x5e, 0xa0, 0xa1, 0xa2, 0xa3, 0xa4:
			return true
		}
		return isJournalOp(op) || isCallOp(op)
	}
	env.Rec.OnStep = func(e *Ev) {
		closeAlloc()
		steps++
		sh.Write([]byte{e.Op, byte(e.Depth)})
		env.DB.Reads = 0
		env.DB.ReadBudget = readBudget(e.Cost)
		if e.Err == "" && watched(e.Op) {
			st.Extra["alloc-windows"]++
			allocOpen, allocStart, allocSeq, allocOp, allocCost, allocMem = true, memTotalAlloc(), e.Seq, e.Op, e.Cost, e.MemLen
		}
	}
	l.onEv = append(l.onEv, func(e *Ev) {
		switch e.K {
		case evTxDone:
			closeAlloc()
		case evTxBegin:
			env.DB.Reads = 0
			env.DB.ReadBudget = readBudget(0)
		case evEnter, evStart, evExit, evEnd:
			// frame boundaries belong to the harness/recorder path (input copies): close the window
			// after the instruction's own work, i.e. keep it open - nothing to do
		}
	})
	env.RunAll()
	drainSwallowed()
	st.AbsorbLog(l)
	st.Shape(sh.Sum64(), steps >= 3)
	st.Extra["state-reads"] += env.DB.TotalReads
	for i, r := range env.Results {
		if r.Budget {
			st.Probes["read-budget-tripped"]++
			vs = append(vs, Violation{Prop: "C20", Rule: "C20.reads", Sig: r.PanicSite, Seq: r.EvTo,
				Msg: fmt.Sprintf("tx %d: one instruction exceeded its state-read budget of 32 + cost/10 reads (aborted by the watchdog inside %s)", i, r.PanicSite)})
		}
	}
	return vs
}
