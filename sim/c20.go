package main

// C20 runner: recorder in counters-only mode and log in digest-only mode, so that the
// harness itself allocates next to nothing inside the measured windows.

import (
	"fmt"
	"hash/fnv"
	"os"
)

var c20Debug = os.Getenv("VERIF_C20_DEBUG") != ""

func c20Run(sc *Scenario, st *Stats) []Violation {
	l := NewLog()
	l.lite = true
	env := NewSutEnv(sc, 0, l, true)
	env.Rec.Light = true
	var vs []Violation
	sh := fnv.New64a()
	steps := 0
	env.DB.ReadBudget = readBudget(0)
	allocOpen, allocStart, allocSeq := false, uint64(0), 0
	var allocOp byte
	var allocCost uint64
	var allocMem int
	var jN, jCost, jAlloc uint64
	allocDepth := 0
	closeAlloc := func(nextMem, nextDepth int) {
		if !allocOpen {
			return
		}
		allocOpen = false
		d := memTotalAlloc() - allocStart
		// A copy / hash / log instruction that did not expand memory (the next instruction of the
		// same frame sees the same memory size) has nothing to re-allocate: what it allocates is
		// covered by its own fee alone (3 gas per word at least), without the memory-size term.
		if copyLikeOp(allocOp) && nextDepth == allocDepth && nextMem == allocMem {
			st.Extra["alloc-windows-without-expansion"]++
			if allocMem >= 64<<10 {
				st.Probes["copy-on-large-existing-memory"]++
			}
			if d > 64<<10+64*allocCost {
				vs = append(vs, Violation{Prop: "C20", Rule: "C20.alloc", Sig: siteOfOp(allocOp) + "/no-expansion", Seq: allocSeq,
					Msg: fmt.Sprintf("instruction %s (cost %d gas) did not expand memory (%d bytes) and made the VM allocate %d bytes before the next instruction (allowed: 64 KiB + 64 bytes per gas)", siteOfOp(allocOp), allocCost, allocMem, d)})
				return
			}
		}
		if c20Debug && d > 8192+64*allocCost+2*uint64(allocMem) {
			if f, err := os.OpenFile(fmt.Sprintf("/tmp/c20dbg.%d", os.Getpid()), os.O_APPEND|os.O_CREATE|os.O_WRONLY, 0644); err == nil {
				fmt.Fprintf(f, "c20dbg op=%02x cost=%d mem=%d alloc=%d excess=%d\n", allocOp, allocCost, allocMem, d, d-64*allocCost-2*uint64(allocMem))
				f.Close()
			}
		}
		budget := allocBudget(allocCost, allocMem)
		if allocOp >= 0xe0 && allocOp <= 0xe6 {
			// a growing map or slice legitimately re-allocates up to about twice what the
			// journal has allocated so far in one step (amortised constant); the amortised
			// rule at the end of the transaction bounds the total. (0xe7's long-string loop
			// is the subject of C20.reads.)
			budget += 2 * jAlloc
			jN++
			jCost += allocCost
			if m := 2 * uint64(allocMem); d > m {
				jAlloc += d - m
			}
		}
		if d > budget {
			vs = append(vs, Violation{Prop: "C20", Rule: "C20.alloc", Sig: siteOfOp(allocOp), Seq: allocSeq,
				Msg: fmt.Sprintf("instruction %s (cost %d gas, memory %d bytes) made the VM allocate %d bytes before the next instruction", siteOfOp(allocOp), allocCost, allocMem, d)})
		}
	}
	watched := func(op byte) bool {
		switch op {
		case 0x20, 0x37, 0x39, 0x3c, 0x3e, 0x5e, 0xa0, 0xa1, 0xa2, 0xa3, 0xa4:
			return true
		}
		return isJournalOp(op) || isCallOp(op)
	}
	env.Rec.OnStep = func(e *Ev) {
		closeAlloc(e.MemLen, e.Depth)
		steps++
		sh.Write([]byte{e.Op, byte(e.Depth)})
		env.DB.Reads = 0
		env.DB.ReadBudget = readBudget(e.Cost)
		if e.Err == "" && watched(e.Op) {
			st.Extra["alloc-windows"]++
			allocDepth = e.Depth
			allocOpen, allocStart, allocSeq, allocOp, allocCost, allocMem = true, memTotalAlloc(), e.Seq, e.Op, e.Cost, e.MemLen
		}
	}
	l.onEv = append(l.onEv, func(e *Ev) {
		switch e.K {
		case evTxDone:
			closeAlloc(-1, -1)
			if jN > 0 {
				if c20Debug && jN > 100 {
					if f, err := os.OpenFile(fmt.Sprintf("/tmp/c20dbg.%d", os.Getpid()), os.O_APPEND|os.O_CREATE|os.O_WRONLY, 0644); err == nil {
						fmt.Fprintf(f, "c20dbg amortised n=%d cost=%d alloc=%d\n", jN, jCost, jAlloc)
						f.Close()
					}
				}
				if jAlloc > 1<<20+16*jCost {
					vs = append(vs, Violation{Prop: "C20", Rule: "C20.alloc", Sig: "journal-amortised", Seq: e.Seq,
						Msg: fmt.Sprintf("the %d journal instructions of one transaction paid %d gas in total and made the VM allocate %d bytes beyond twice the memory size (allowed: 1 MiB + 16 bytes per gas): work per flat-fee instruction grows with what was journaled before", jN, jCost, jAlloc)})
				}
				if jN >= 1000 {
					l.Probe("thousand-journal-instructions-in-one-transaction")
				}
			}
			jN, jCost, jAlloc = 0, 0, 0
		case evTxBegin:
			env.DB.Reads = 0
			env.DB.ReadBudget = readBudget(0)
		case evEnter, evStart, evExit, evEnd:
			// frame boundaries belong to the harness/recorder path (input copies): close the window
			// after the instruction's own work, i.e. keep it open - nothing to do
		}
	})
	env.RunAll()
	drainSwallowed()
	st.AbsorbLog(l)
	st.Shape(sh.Sum64(), steps >= 3)
	st.Extra["state-reads"] += env.DB.TotalReads
	for i, r := range env.Results {
		if r.Budget {
			st.Probes["read-budget-tripped"]++
			vs = append(vs, Violation{Prop: "C20", Rule: "C20.reads", Sig: r.PanicSite, Seq: r.EvTo,
				Msg: fmt.Sprintf("tx %d: one instruction exceeded its state-read budget of 32 + cost/10 reads (aborted by the watchdog inside %s)", i, r.PanicSite)})
		}
	}
	return vs
}

func copyLikeOp(op byte) bool {
	switch op {
	case 0x20, 0x37, 0x39, 0x3c, 0x3e, 0x5e, 0xa0, 0xa1, 0xa2, 0xa3, 0xa4:
		return true
	}
	return false
}
