package main

// The host side of the simulation: Aspect binding store (stub provider), host
// callbacks, the re-entrancy hook, and the WASM Aspects the simulator writes itself.
// aspect-core keeps one global Aspect instance and global function variables, so all
// of these are installed once per process; everything per-run is routed through the
// context.Context each callback receives.

import (
	"context"
	"encoding/binary"
	"errors"
	"fmt"
	"strings"
	"sync"

	"github.com/artela-network/aspect-core/djpm"
	actypes "github.com/artela-network/aspect-core/types"
	avm "github.com/artela-network/artela-evm/vm"
	rttypes "github.com/artela-network/aspect-runtime/types"
	wasmtime "github.com/bytecodealliance/wasmtime-go/v20"
	"github.com/ethereum/go-ethereum/common"
	"google.golang.org/protobuf/proto"
)

type hostKey struct{}

// Host is the per-executor host handle placed in the context.
type Host struct {
	L        *Log
	Ex       int
	Sc       *Scenario
	TxIdx    int
	Firing   int // provider invocations within the current tx
	CbCount  int // host callback invocations within the current tx
	EVM      *avm.EVM
	Store    map[string][]byte // aspect context store: addr||key -> value
	ReentJP  bool              // leave join points on during a re-entrant call
	InAspect int
}

func hostFrom(ctx context.Context) *Host {
	h, _ := ctx.Value(hostKey{}).(*Host)
	if h == nil {
		panic(harnessErr("callback without host in context"))
	}
	return h
}

func (h *Host) Ctx() context.Context { return context.WithValue(context.Background(), hostKey{}, h) }

func (h *Host) fault(kind string, at int) *Fault {
	for i := range h.Sc.Faults {
		f := &h.Sc.Faults[i]
		if f.Kind == kind && f.Ex == h.Ex && f.Tx == h.TxIdx && f.At == at {
			return f
		}
	}
	return nil
}

// ---------------------------------------------------------------------------------
// provider stub

type provider struct{}

var errBindingStore = errors.New("binding store unavailable")

func (provider) GetTxBondAspects(ctx context.Context, contract common.Address, pc actypes.PointCut) ([]*actypes.AspectCode, error) {
	h := hostFrom(ctx)
	h.Firing++
	k := h.Firing
	h.L.Add(Ev{Ex: h.Ex, K: evProvider, Name: string(pc), To: contract, N: uint64(k)})
	if f := h.fault("provider", k); f != nil {
		h.L.Fired("F2.provider-" + f.Arg)
		h.L.Add(Ev{Ex: h.Ex, K: evInject, Name: "provider-" + f.Arg, N: uint64(k)})
		switch f.Arg {
		case "oog":
			return nil, errors.New("out of gas")
		case "revert":
			return nil, avm.ErrExecutionReverted
		case "wrapped":
			// an error that merely wraps the revert sentinel is not the sentinel: the EVM compares
			// by identity everywhere, so this is an ordinary (gas-forfeiting) failure
			return nil, fmt.Errorf("binding store: %w", avm.ErrExecutionReverted)
		default:
			return nil, errBindingStore
		}
	}
	if f := h.fault("aspect", k); f != nil {
		h.L.Fired("F3.aspect-" + f.Arg)
		h.L.Add(Ev{Ex: h.Ex, K: evInject, Name: "aspect-" + f.Arg, N: uint64(k)})
		spec := AspectSpec{ID: "0xa5a5000000000000000000000000000000000f" + fmt.Sprintf("%02x", k&0xff), Kind: f.Arg, N: f.N}
		return []*actypes.AspectCode{aspectCode(spec)}, nil
	}
	var out []*actypes.AspectCode
	for _, b := range h.Sc.Bindings {
		if addr(b.Contract) != contract {
			continue
		}
		if b.Point == "both" || (b.Point == "pre" && pc == actypes.PRE_CONTRACT_CALL_METHOD) ||
			(b.Point == "post" && pc == actypes.POST_CONTRACT_CALL_METHOD) {
			for _, a := range b.Aspects {
				out = append(out, aspectCode(a))
			}
		}
	}
	return out, nil
}

func (provider) GetAccountVerifiers(context.Context, common.Address) ([]*actypes.AspectCode, error) {
	return nil, nil
}

func (provider) GetLatestBlock() int64 { return 0 }

// ---------------------------------------------------------------------------------
// runtime logger: the seam through which panics swallowed by aspect-core surface

type rtLogger struct{}

var (
	swallowedMu sync.Mutex
	swallowed   []string
)

func (rtLogger) Debug(string, ...interface{}) {}
func (rtLogger) Info(string, ...interface{})  {}
func (rtLogger) Error(msg string, kv ...interface{}) {
	if msg != "panic in running aspect" {
		return
	}
	var sb strings.Builder
	for i := 0; i+1 < len(kv); i += 2 {
		switch v := kv[i+1].(type) {
		case []byte:
			fmt.Fprintf(&sb, "%v=%s\n", kv[i], string(v))
		default:
			fmt.Fprintf(&sb, "%v=%v\n", kv[i], v)
		}
	}
	swallowedMu.Lock()
	swallowed = append(swallowed, sb.String())
	swallowedMu.Unlock()
}
func (l rtLogger) With(...interface{}) rttypes.Logger { return l }

func drainSwallowed() []string {
	swallowedMu.Lock()
	defer swallowedMu.Unlock()
	s := swallowed
	swallowed = nil
	return s
}

// ---------------------------------------------------------------------------------
// host callbacks

type evmHook struct{ h *Host }

func (e evmHook) StaticCall(rc *actypes.RunnerContext, req *actypes.StaticCallRequest) (*actypes.StaticCallResult, error) {
	h := e.h
	h.L.Fired("F4.reentrant-staticcall")
	gas := uint64(100000)
	if req.Gas != nil {
		gas = *req.Gas
	}
	from := common.BytesToAddress(req.From)
	to := common.BytesToAddress(req.To)
	h.L.Add(Ev{Ex: h.Ex, K: evHost, Name: "staticCall", From: from, To: to, Val: cp(req.Data), N: gas})
	if !h.ReentJP {
		h.EVM.CloseAspectCall()
		defer h.EVM.AspectCall()
	}
	h.InAspect++
	// like any entry into the EVM from the host, the destination is warm (what Prepare does
	// for the transaction's own destination); the EIP-2929 gas functions rely on it
	h.EVM.StateDB.AddAddressToAccessList(to)
	ret, left, err := h.EVM.StaticCall(rc.Ctx, avm.AccountRef(from), to, req.Data, gas)
	h.InAspect--
	es := errStr(err)
	return &actypes.StaticCallResult{Ret: ret, VmError: &es, GasLeft: &left}, nil
}

func (e evmHook) JITCall(*actypes.RunnerContext, *actypes.JitInherentRequest) (*actypes.JitInherentResponse, error) {
	return nil, errors.New("jit call not simulated")
}

var bigValue = strings.Repeat("\xab", 10240)

func (h *Host) cbFault(name string) (string, bool) {
	h.CbCount++
	if f := h.fault("hostcb", h.CbCount); f != nil {
		h.L.Fired("F5.hostcb-" + f.Arg)
		h.L.Add(Ev{Ex: h.Ex, K: evInject, Name: "hostcb-" + f.Arg + "-" + name, N: uint64(h.CbCount)})
		return f.Arg, true
	}
	return "", false
}

var errCtxStore = errors.New("context store unavailable")

func storeKey(a common.Address, key string) string { return string(a[:]) + key }

var installOnce sync.Once

// InstallHost initialises the process-wide pieces of the Aspect machinery.
func InstallHost() {
	installOnce.Do(func() {
		ctx := context.Background()
		actypes.InitRuntimePool(ctx, rtLogger{}, int32(envInt("VERIF_POOL", 16)), int32(envInt("VERIF_POOL", 16)))
		djpm.NewAspect(provider{}, rtLogger{})
		actypes.IsCommit = func(context.Context) bool { return true }
		actypes.GetEvmHostHook = func(ctx context.Context) (actypes.EVMHostAPI, error) {
			return evmHook{hostFrom(ctx)}, nil
		}
		actypes.GetAspectContext = func(ctx context.Context, a common.Address, key string) ([]byte, error) {
			h := hostFrom(ctx)
			flavour, faulty := h.cbFault("get")
			h.L.Add(Ev{Ex: h.Ex, K: evHost, Name: "GetAspectContext", From: a, Key: []byte(key)})
			if faulty {
				switch flavour {
				case "err":
					return nil, errCtxStore
				case "empty":
					return []byte{}, nil
				case "big":
					return []byte(bigValue), nil
				}
			}
			return cp(h.Store[storeKey(a, key)]), nil
		}
		actypes.SetAspectContext = func(ctx context.Context, a common.Address, key string, value []byte) error {
			h := hostFrom(ctx)
			flavour, faulty := h.cbFault("set")
			h.L.Add(Ev{Ex: h.Ex, K: evHost, Name: "SetAspectContext", From: a, Key: []byte(key), Val: cp(value)})
			if faulty && flavour == "err" {
				return errCtxStore
			}
			h.Store[storeKey(a, key)] = cp(value)
			return nil
		}
		actypes.JITSenderAspectByContext = func(ctx context.Context, hash common.Hash) (common.Address, error) {
			h := hostFrom(ctx)
			flavour, faulty := h.cbFault("sender")
			h.L.Add(Ev{Ex: h.Ex, K: evHost, Name: "JITSender", Key: hash[:]})
			if faulty && flavour == "err" {
				return common.Address{}, errCtxStore
			}
			return common.BytesToAddress(hash[12:]), nil
		}
	})
}

// ---------------------------------------------------------------------------------
// WASM Aspects written by the simulator

var (
	aspMu    sync.Mutex
	aspCache = map[string]*actypes.AspectCode{}
)

func marshalBytes(typ byte, b []byte) []byte {
	out := make([]byte, 6+len(b))
	out[0] = typ
	binary.LittleEndian.PutUint32(out[2:], uint32(len(b)))
	copy(out[6:], b)
	return out
}

func watEscape(b []byte) string {
	var sb strings.Builder
	for _, c := range b {
		fmt.Fprintf(&sb, "\\%02x", c)
	}
	return sb.String()
}

// aspectWAT builds an Aspect: burn N loop iterations, then act according to kind.
//
//	noop/burn: return nothing     trap: unreachable      revert: util.revert(Arg) then trap
//	loop: spin until out of gas   ret: return Arg bytes  call: N2 re-entrant static calls (request in Arg, proto bytes)
func aspectWAT(spec AspectSpec) string {
	burn := uint64(0)
	action := "(i32.const 0)"
	data := ""
	switch spec.Kind {
	case "noop":
	case "burn":
		burn = spec.N
	case "trap":
		action = "(unreachable)"
	case "revert":
		msg := spec.Arg
		if msg == "" {
			msg = "aspect says no"
		}
		data = fmt.Sprintf(`(data (i32.const 64) "%s")`, watEscape(marshalBytes(10, []byte(msg))))
		action = "(call $revert (i32.const 64)) (unreachable)"
	case "loop":
		action = "(loop $f (br $f)) (i32.const 0)"
	case "ret":
		data = fmt.Sprintf(`(data (i32.const 64) "%s")`, watEscape(marshalBytes(11, unhex(spec.Arg))))
		action = "(i32.const 64)"
	case "call":
		data = fmt.Sprintf(`(data (i32.const 64) "%s")`, watEscape(marshalBytes(11, unhex(spec.Arg))))
		n := spec.N
		if n == 0 {
			n = 1
		}
		var sb strings.Builder
		for i := uint64(0); i < n; i++ {
			sb.WriteString("(drop (call $scall (i32.const 64))) ")
		}
		sb.WriteString("(i32.const 0)")
		action = sb.String()
	default:
		panic(harnessErr("unknown aspect kind " + spec.Kind))
	}
	return fmt.Sprintf(`(module
  (import "util-api" "__UtilApi__.revert" (func $revert (param i32)))
  (import "evm-call-api" "__EvmCallApi__.staticCall" (func $scall (param i32) (result i32)))
  (memory (export "memory") 4)
  (global $heap (mut i32) (i32.const 65536))
  %s
  (func (export "__aspect_start__"))
  (func (export "allocate") (param $n i32) (result i32)
    (local $p i32)
    (local.set $p (global.get $heap))
    (global.set $heap (i32.add (global.get $heap) (i32.and (i32.add (local.get $n) (i32.const 15)) (i32.const -8))))
    (local.get $p))
  (func (export "execute") (param i32 i32) (result i32)
    (local $i i64)
    (local.set $i (i64.const %d))
    (block $done (loop $l
      (br_if $done (i64.eqz (local.get $i)))
      (local.set $i (i64.sub (local.get $i) (i64.const 1)))
      (br $l)))
    %s))`, data, burn, action)
}

func aspectCode(spec AspectSpec) *actypes.AspectCode {
	key := fmt.Sprintf("%s|%s|%d|%s", spec.ID, spec.Kind, spec.N, spec.Arg)
	aspMu.Lock()
	defer aspMu.Unlock()
	if c, ok := aspCache[key]; ok {
		return c
	}
	wasm, err := wasmtime.Wat2Wasm(aspectWAT(spec))
	if err != nil {
		panic(harnessErr("wat2wasm: " + err.Error()))
	}
	c := &actypes.AspectCode{AspectId: spec.ID, Version: 1, Code: wasm}
	aspCache[key] = c
	return c
}

func staticCallReq(from, to common.Address, data []byte, gas uint64) []byte {
	if data == nil {
		data = []byte{}
	}
	b, err := proto.Marshal(&actypes.StaticCallRequest{From: from[:], To: to[:], Data: data, Gas: &gas})
	if err != nil {
		panic(harnessErr("marshal static call: " + err.Error()))
	}
	return b
}
