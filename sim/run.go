package main

import (
	"context"
	"fmt"
	"math/big"
	"runtime/debug"
	"strings"
	"sync/atomic"

	avm "github.com/artela-network/artela-evm/vm"
	actypes "github.com/artela-network/aspect-core/types"
	"github.com/ethereum/go-ethereum/common"
	ecore "github.com/ethereum/go-ethereum/core"
	"github.com/ethereum/go-ethereum/core/state"
	"github.com/ethereum/go-ethereum/core/types"
	evm "github.com/ethereum/go-ethereum/core/vm"
	"github.com/ethereum/go-ethereum/crypto"
	"github.com/holiman/uint256"
)

type LogRec struct {
	Addr   common.Address
	Topics []common.Hash
	Data   []byte
}

type TxResult struct {
	Ret       []byte
	GasLeft   uint64
	Err       error
	Class     string
	Created   common.Address
	Panic     string // recovered panic value, "" if none
	PanicSite string // first frame under /repo
	Budget    bool   // C20 read budget exceeded
	Root      common.Hash
	Logs      []LogRec
	Refund    uint64
	EvFrom    int // index of first event of this tx in the log
	EvTo      int
}

func (r *TxResult) String() string {
	return fmt.Sprintf("ret=%x gas=%d class=%s created=%x root=%x logs=%d refund=%d panic=%q",
		r.Ret, r.GasLeft, r.Class, r.Created, r.Root, len(r.Logs), r.Refund, r.Panic)
}

func sutClass(err error) string {
	switch err {
	case nil:
		return "ok"
	case avm.ErrOutOfGas:
		return "oog"
	case avm.ErrCodeStoreOutOfGas:
		return "codestore-oog"
	case avm.ErrDepth:
		return "depth"
	case avm.ErrInsufficientBalance:
		return "balance"
	case avm.ErrContractAddressCollision:
		return "collision"
	case avm.ErrExecutionReverted:
		return "revert"
	case avm.ErrMaxInitCodeSizeExceeded:
		return "initcode-size"
	case avm.ErrMaxCodeSizeExceeded:
		return "code-size"
	case avm.ErrInvalidJump:
		return "jump"
	case avm.ErrWriteProtection:
		return "write-protection"
	case avm.ErrReturnDataOutOfBounds:
		return "returndata-oob"
	case avm.ErrGasUintOverflow:
		return "gas-overflow"
	case avm.ErrInvalidCode:
		return "invalid-code"
	case avm.ErrNonceUintOverflow:
		return "nonce-overflow"
	}
	switch err.(type) {
	case *avm.ErrStackUnderflow:
		return "stack-underflow:" + err.Error()
	case *avm.ErrStackOverflow:
		return "stack-overflow:" + err.Error()
	case *avm.ErrInvalidOpCode:
		return "invalid-opcode"
	}
	return "other:" + err.Error()
}

func refClass(err error) string {
	switch err {
	case nil:
		return "ok"
	case evm.ErrOutOfGas:
		return "oog"
	case evm.ErrCodeStoreOutOfGas:
		return "codestore-oog"
	case evm.ErrDepth:
		return "depth"
	case evm.ErrInsufficientBalance:
		return "balance"
	case evm.ErrContractAddressCollision:
		return "collision"
	case evm.ErrExecutionReverted:
		return "revert"
	case evm.ErrMaxInitCodeSizeExceeded:
		return "initcode-size"
	case evm.ErrMaxCodeSizeExceeded:
		return "code-size"
	case evm.ErrInvalidJump:
		return "jump"
	case evm.ErrWriteProtection:
		return "write-protection"
	case evm.ErrReturnDataOutOfBounds:
		return "returndata-oob"
	case evm.ErrGasUintOverflow:
		return "gas-overflow"
	case evm.ErrInvalidCode:
		return "invalid-code"
	case evm.ErrNonceUintOverflow:
		return "nonce-overflow"
	}
	switch err.(type) {
	case *evm.ErrStackUnderflow:
		return "stack-underflow:" + err.Error()
	case *evm.ErrStackOverflow:
		return "stack-overflow:" + err.Error()
	case *evm.ErrInvalidOpCode:
		return "invalid-opcode"
	}
	return "other:" + err.Error()
}

// errTextClass normalises error texts seen through the tracer (strings only).
func errTextClass(s string) string {
	if strings.HasPrefix(s, "invalid opcode") {
		return "invalid opcode"
	}
	return s
}

func txHash(ex, i int) common.Hash {
	return crypto.Keccak256Hash([]byte{byte(ex), byte(i), byte(i >> 8)})
}

func (tx *Tx) gas(sc *Scenario, ex, i int) uint64 {
	for _, f := range sc.Faults {
		if f.Kind == "gas" && f.Ex == ex && f.Tx == i {
			return uint64(f.N)
		}
	}
	return tx.Gas
}

func (tx *Tx) initCode() []byte {
	if tx.Init != nil {
		return Assemble(tx.Init)
	}
	return unhex(tx.InitHex)
}

func repoSite(stack string) string {
	lines := strings.Split(stack, "\n")
	// the frame that panicked: first frame after the runtime's panic machinery. If that frame
	// is harness code the fault is ours, never the system's: report harness trouble (exit 2).
	afterPanic := false
	for _, l := range lines {
		t := strings.TrimSpace(l)
		if strings.HasPrefix(t, "panic(") {
			afterPanic = true
			continue
		}
		if !afterPanic || !strings.HasPrefix(t, "/") {
			continue
		}
		if strings.Contains(t, "/runtime/") || strings.Contains(t, "/src/runtime") {
			continue
		}
		if strings.HasPrefix(t, "/verif/") {
			panic(harnessErr("panic raised inside harness code: " + t + "\n" + stack))
		}
		break
	}
	return firstRepoFrame(stack)
}

func firstRepoFrame(stack string) string {
	lines := strings.Split(stack, "\n")
	for i, l := range lines {
		t := strings.TrimSpace(l)
		if strings.HasPrefix(t, repoPrefix) {
			// previous line holds the function name
			fn := ""
			if i > 0 {
				fn = strings.TrimSpace(lines[i-1])
				if p := strings.LastIndex(fn, "("); p > 0 {
					fn = fn[:p]
				}
				if p := strings.LastIndex(fn, "/"); p >= 0 {
					fn = fn[p+1:]
				}
			}
			return fn
		}
	}
	return "unknown"
}

// ---------------------------------------------------------------------------------
// system under test

type SutEnv struct {
	Sc      *Scenario
	Ex      int
	L       *Log
	St      *state.StateDB
	DB      *SimDB
	Host    *Host
	Rec     *SutRec // nil = tracer off
	EVM     *avm.EVM
	EVMs    []*avm.EVM // EVM used by each tx
	Results []TxResult
	NoDB    bool // hand the raw StateDB to the EVM (no simdb wrapper)
	OnTxEnd func(i int, r *TxResult)
	// hook to wrap the block context (C13 transfer seam)
	WrapBlock func(bc *avm.BlockContext)
	// hook to attach an inner tracer under test (C18/C19)
	InnerTracer func(i int) (avm.EVMLogger, interface{})
	Inners      []interface{}
	evmP        atomic.Pointer[avm.EVM] // for the free-running canceller of the race tier
}

func (e *SutEnv) evmForRace() *avm.EVM { return e.evmP.Load() }

func NewSutEnv(sc *Scenario, ex int, l *Log, tracer bool) *SutEnv {
	InstallHost()
	st := buildState(sc)
	e := &SutEnv{Sc: sc, Ex: ex, L: l, St: st}
	e.DB = NewSimDB(st, l, ex)
	e.Host = &Host{L: l, Ex: ex, Sc: sc, Store: map[string][]byte{}}
	if tracer {
		e.Rec = &SutRec{L: l, Ex: ex}
	}
	return e
}

func (e *SutEnv) RunAll() {
	for i := range e.Sc.Execs[e.Ex].Txs {
		e.RunTx(i)
	}
}

func (e *SutEnv) RunTx(i int) *TxResult {
	sc := e.Sc
	tx := &sc.Execs[e.Ex].Txs[i]
	gas := tx.gas(sc, e.Ex, i)
	from := addr(tx.From)
	value := bigOf(tx.Value)
	res := TxResult{EvFrom: e.L.Len()}
	e.Host.TxIdx = i
	e.Host.Firing = 0
	e.Host.CbCount = 0
	e.L.Add(Ev{Ex: e.Ex, K: evTxBegin, N: uint64(i), Name: tx.Kind})

	var db avm.StateDB = e.DB
	if e.NoDB {
		db = e.St
	}
	if !tx.SameEVM || e.EVM == nil {
		bc := sutBlockCtx(sc)
		if e.WrapBlock != nil {
			e.WrapBlock(&bc)
		}
		msg := &ecore.Message{From: from, Value: value, GasLimit: gas, GasPrice: new(big.Int).SetUint64(sc.Block.GasPrice), Data: unhex(tx.Data)}
		txc := avm.TxContext{Origin: from, GasPrice: new(big.Int).SetUint64(sc.Block.GasPrice), Message: msg}
		cfg := avm.Config{ExtraEips: append([]int{}, sc.ExtraEIPs...)}
		if e.Rec != nil {
			e.Rec.inner, e.Rec.innerA = nil, nil
			if e.InnerTracer != nil {
				in, obj := e.InnerTracer(i)
				e.Rec.inner = in
				if a, ok := in.(actypes.AspectLogger); ok {
					e.Rec.innerA = a
				}
				e.Inners = append(e.Inners, obj)
			}
			cfg.Tracer = e.Rec
		}
		e.EVM = avm.NewEVM(bc, txc, db, chainConfig(sc.Fork, sc.Block), cfg)
		e.Host.EVM = e.EVM
		e.evmP.Store(e.EVM)
	} else if sc.resetBefore(i) {
		// what a host does between the transactions of a block when it keeps the EVM object
		msg := &ecore.Message{From: from, Value: value, GasLimit: gas, GasPrice: new(big.Int).SetUint64(sc.Block.GasPrice), Data: unhex(tx.Data)}
		e.EVM.Reset(avm.TxContext{Origin: from, GasPrice: new(big.Int).SetUint64(sc.Block.GasPrice), Message: msg}, db)
		e.L.Probe("evm-reset-between-transactions")
	}
	e.EVMs = append(e.EVMs, e.EVM)
	evmI := e.EVM
	rules := evmI.ChainConfig().Rules(evmI.Context.BlockNumber, evmI.Context.Random != nil, evmI.Context.Time)
	if !tx.NoPrep {
		var dst *common.Address
		if tx.Kind != "create" && tx.Kind != "create2" {
			a := addr(tx.To)
			dst = &a
		}
		e.St.Prepare(rules, from, addr(sc.Block.Coinbase), dst, avm.ActivePrecompiles(rules), accessList(tx.AL))
		e.St.SetTxContext(txHash(e.Ex, i), i)
	}
	if tx.JPOff {
		evmI.CloseAspectCall()
		e.L.Fired("F8.join-points-switched-off")
	} else {
		evmI.AspectCall()
	}
	if gas != tx.Gas {
		e.L.Fired("F1.gas-cut")
	}
	ctx := e.Host.Ctx()
	{
		opb := map[string]byte{"call": 0xf1, "callcode": 0xf2, "delegatecall": 0xf4, "staticcall": 0xfa, "create": 0xf0, "create2": 0xf5}[tx.Kind]
		in := unhex(tx.Data)
		to := common.Address{}
		if opb == 0xf0 || opb == 0xf5 {
			in = tx.initCode()
		} else {
			to = addr(tx.To)
		}
		e.L.Add(Ev{Ex: e.Ex, K: evHost, Name: "top", N: uint64(opb), From: from, To: to, Val: in, Val2: value.Bytes(), N2: gas})
	}
	if e.Rec != nil {
		e.Rec.CaptureTxStart(gas)
	}
	func() {
		defer func() {
			if r := recover(); r != nil {
				if he, ok := r.(harnessErr); ok {
					panic(he)
				}
				if _, ok := r.(budgetExceeded); ok {
					res.Budget = true
					res.PanicSite = firstRepoFrame(string(debug.Stack()))
					return
				}
				res.Panic = fmt.Sprint(r)
				res.PanicSite = repoSite(string(debug.Stack()))
			}
		}()
		switch tx.Kind {
		case "call":
			res.Ret, res.GasLeft, res.Err = evmI.Call(ctx, avm.AccountRef(from), addr(tx.To), unhex(tx.Data), gas, value)
		case "callcode":
			c := avm.NewContract(avm.AccountRef(from), avm.AccountRef(from), value, gas)
			res.Ret, res.GasLeft, res.Err = evmI.CallCode(ctx, c, addr(tx.To), unhex(tx.Data), gas, value)
		case "delegatecall":
			c := avm.NewContract(avm.AccountRef(from), avm.AccountRef(from), value, gas)
			res.Ret, res.GasLeft, res.Err = evmI.DelegateCall(ctx, c, addr(tx.To), unhex(tx.Data), gas)
		case "staticcall":
			c := avm.NewContract(avm.AccountRef(from), avm.AccountRef(from), value, gas)
			res.Ret, res.GasLeft, res.Err = evmI.StaticCall(ctx, c, addr(tx.To), unhex(tx.Data), gas)
		case "create":
			res.Ret, res.Created, res.GasLeft, res.Err = evmI.Create(ctx, avm.AccountRef(from), tx.initCode(), gas, value)
		case "create2":
			salt := new(uint256.Int).SetBytes(unhex(tx.Salt))
			res.Ret, res.Created, res.GasLeft, res.Err = evmI.Create2(ctx, avm.AccountRef(from), tx.initCode(), gas, value, salt)
		default:
			panic(harnessErr("unknown tx kind " + tx.Kind))
		}
	}()
	res.Ret = cp(res.Ret)
	if e.Rec != nil && res.Panic == "" && !res.Budget {
		e.Rec.CaptureTxEnd(res.GasLeft)
	}
	res.Class = sutClass(res.Err)
	res.Refund = e.St.GetRefund()
	for _, l := range e.St.GetLogs(txHash(e.Ex, i), sc.Block.Number, common.Hash{}) {
		res.Logs = append(res.Logs, LogRec{l.Address, append([]common.Hash{}, l.Topics...), cp(l.Data)})
	}
	e.L.Add(Ev{Ex: e.Ex, K: evTxDone, N: uint64(i), Out: res.Ret, Gas: res.GasLeft, Err: errStr(res.Err), Name: res.Panic})
	res.EvTo = e.L.Len()
	e.Results = append(e.Results, res)
	r := &e.Results[len(e.Results)-1]
	if e.OnTxEnd != nil {
		e.OnTxEnd(i, r)
	}
	// finalise between transactions exactly as a block processor does, unless the
	// next tx continues the same transaction
	next := i + 1
	if res.Panic == "" && !res.Budget && !(next < len(sc.Execs[e.Ex].Txs) && sc.Execs[e.Ex].Txs[next].NoPrep) {
		r.Root = e.St.IntermediateRoot(rules.IsEIP158)
	}
	return r
}

// ---------------------------------------------------------------------------------
// reference interpreter: go-ethereum v1.12.0 core/vm

type RefEnv struct {
	Sc      *Scenario
	Ex      int
	L       *Log
	St      *state.StateDB
	Rec     *RefRec
	EVM     *evm.EVM
	Results []TxResult
	// optional bytecode rewrite applied to all account code and init code (C15)
	InnerTracer func(i int) (evm.EVMLogger, interface{})
	Inners      []interface{}
}

func NewRefEnv(sc *Scenario, ex int, l *Log, tracer bool) *RefEnv {
	e := &RefEnv{Sc: sc, Ex: ex, L: l, St: buildState(sc)}
	if tracer {
		e.Rec = &RefRec{L: l, Ex: ex}
	}
	return e
}

func (e *RefEnv) RunAll() {
	for i := range e.Sc.Execs[e.Ex].Txs {
		e.RunTx(i)
	}
}

func (e *RefEnv) RunTx(i int) *TxResult {
	sc := e.Sc
	tx := &sc.Execs[e.Ex].Txs[i]
	gas := tx.gas(sc, e.Ex, i)
	from := addr(tx.From)
	value := bigOf(tx.Value)
	res := TxResult{EvFrom: e.L.Len()}
	e.L.Add(Ev{Ex: e.Ex, K: evTxBegin, N: uint64(i), Name: tx.Kind})
	if !tx.SameEVM || e.EVM == nil {
		cfg := evm.Config{ExtraEips: append([]int{}, sc.ExtraEIPs...)}
		if e.Rec != nil {
			e.Rec.inner = nil
			if e.InnerTracer != nil {
				in, obj := e.InnerTracer(i)
				e.Rec.inner = in
				e.Inners = append(e.Inners, obj)
			}
			cfg.Tracer = e.Rec
		}
		txc := evm.TxContext{Origin: from, GasPrice: new(big.Int).SetUint64(sc.Block.GasPrice)}
		e.EVM = evm.NewEVM(refBlockCtx(sc), txc, e.St, chainConfig(sc.Fork, sc.Block), cfg)
	} else if sc.resetBefore(i) {
		e.EVM.Reset(evm.TxContext{Origin: from, GasPrice: new(big.Int).SetUint64(sc.Block.GasPrice)}, e.St)
	}
	evmI := e.EVM
	rules := evmI.ChainConfig().Rules(evmI.Context.BlockNumber, evmI.Context.Random != nil, evmI.Context.Time)
	if !tx.NoPrep {
		var dst *common.Address
		if tx.Kind != "create" && tx.Kind != "create2" {
			a := addr(tx.To)
			dst = &a
		}
		e.St.Prepare(rules, from, addr(sc.Block.Coinbase), dst, evm.ActivePrecompiles(rules), accessList(tx.AL))
		e.St.SetTxContext(txHash(e.Ex, i), i)
	}
	if e.Rec != nil {
		e.Rec.CaptureTxStart(gas)
	}
	func() {
		defer func() {
			if r := recover(); r != nil {
				if he, ok := r.(harnessErr); ok {
					panic(he)
				}
				res.Panic = fmt.Sprint(r)
				res.PanicSite = "reference"
			}
		}()
		switch tx.Kind {
		case "call":
			res.Ret, res.GasLeft, res.Err = evmI.Call(evm.AccountRef(from), addr(tx.To), unhex(tx.Data), gas, value)
		case "callcode":
			c := evm.NewContract(evm.AccountRef(from), evm.AccountRef(from), value, gas)
			res.Ret, res.GasLeft, res.Err = evmI.CallCode(c, addr(tx.To), unhex(tx.Data), gas, value)
		case "delegatecall":
			c := evm.NewContract(evm.AccountRef(from), evm.AccountRef(from), value, gas)
			res.Ret, res.GasLeft, res.Err = evmI.DelegateCall(c, addr(tx.To), unhex(tx.Data), gas)
		case "staticcall":
			c := evm.NewContract(evm.AccountRef(from), evm.AccountRef(from), value, gas)
			res.Ret, res.GasLeft, res.Err = evmI.StaticCall(c, addr(tx.To), unhex(tx.Data), gas)
		case "create":
			res.Ret, res.Created, res.GasLeft, res.Err = evmI.Create(evm.AccountRef(from), tx.initCode(), gas, value)
		case "create2":
			salt := new(uint256.Int).SetBytes(unhex(tx.Salt))
			res.Ret, res.Created, res.GasLeft, res.Err = evmI.Create2(evm.AccountRef(from), tx.initCode(), gas, value, salt)
		default:
			panic(harnessErr("unknown tx kind " + tx.Kind))
		}
	}()
	res.Ret = cp(res.Ret)
	if e.Rec != nil && res.Panic == "" {
		e.Rec.CaptureTxEnd(res.GasLeft)
	}
	res.Class = refClass(res.Err)
	res.Refund = e.St.GetRefund()
	for _, l := range e.St.GetLogs(txHash(e.Ex, i), sc.Block.Number, common.Hash{}) {
		res.Logs = append(res.Logs, LogRec{l.Address, append([]common.Hash{}, l.Topics...), cp(l.Data)})
	}
	e.L.Add(Ev{Ex: e.Ex, K: evTxDone, N: uint64(i), Out: res.Ret, Gas: res.GasLeft, Err: errStr(res.Err), Name: res.Panic})
	res.EvTo = e.L.Len()
	next := i + 1
	if res.Panic == "" && !(next < len(sc.Execs[e.Ex].Txs) && sc.Execs[e.Ex].Txs[next].NoPrep) {
		res.Root = e.St.IntermediateRoot(rules.IsEIP158)
	}
	e.Results = append(e.Results, res)
	return &e.Results[len(e.Results)-1]
}

var _ = context.Background
var _ = types.EmptyRootHash
