package main

import (
	"fmt"
	"os"
)

func usage() {
	fmt.Fprintln(os.Stderr, "usage: artsim check <id> <quick|thorough> | replay <file> | worker ... | minimise <in> <out> | list")
	os.Exit(2)
}

func main() {
	defer func() {
		if r := recover(); r != nil {
			if he, ok := r.(harnessErr); ok {
				fmt.Fprintln(os.Stderr, he.Error())
				os.Exit(2)
			}
			panic(r)
		}
	}()
	if len(os.Args) < 2 {
		usage()
	}
	switch os.Args[1] {
	case "check":
		if len(os.Args) < 4 {
			usage()
		}
		os.Exit(checkMain(os.Args[2], os.Args[3]))
	case "worker":
		workerMain(os.Args[2:])
	case "replay":
		if len(os.Args) < 3 {
			usage()
		}
		os.Exit(replayMain(os.Args[2]))
	case "selftest":
		os.Exit(selftestMain(os.Args[2:]))
	case "race":
		os.Exit(raceMain(os.Args[2:]))
	case "minimise":
		os.Exit(minimiseMain(os.Args[2], os.Args[3]))
	case "list":
		for id := range checks {
			fmt.Println(id)
		}
	default:
		usage()
	}
}
