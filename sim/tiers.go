package main

// Runs per tier (quick, thorough), calibrated on 16 cores: quick 20-45 s per property,
// thorough 10-20 min. One place, so cost tuning never touches a check.
var tierRuns = map[string][2]int{
	"C01": {5000, 90000},
	"C02": {3000, 70000},
	"C03": {6000, 200000},
	"C04": {288, 8000},
	"C05": {192, 4000},
	"C06": {160, 4500},
	"C07": {112, 3000},
	"C08": {160, 6000},
	"C10": {400, 12000},
	"C11": {40000, 2000000},
	"C13": {160, 6000},
	"C14": {20000, 1500000},
	"C15": {4000, 120000},
	"C16": {640, 20000},
	"C17": {400, 12000},
	"C18": {1400, 30000},
	"C19": {4000, 120000},
	"C20": {6000, 200000},
}

func runsFor(c *Check, tier string) int {
	if v, ok := tierRuns[c.ID]; ok {
		if tier == "thorough" {
			return v[1]
		}
		return v[0]
	}
	if n := c.Runs[tier]; n > 0 {
		return n
	}
	return c.Runs["quick"]
}
