package main

// Runs per tier (quick, thorough), calibrated on 16 cores: quick 30-60 s per property,
// thorough 10-20 min. One place, so cost tuning never touches a check.
var tierRuns = map[string][2]int{
	"C01": {3000, 60000},
	"C02": {3000, 60000},
	"C03": {6000, 200000},
	"C04": {320, 8000},
	"C05": {96, 2500},
	"C06": {160, 4000},
	"C07": {192, 5000},
	"C08": {128, 3500},
	"C10": {400, 10000},
	"C11": {20000, 600000},
	"C13": {128, 3500},
	"C14": {4000, 120000},
	"C15": {3000, 60000},
	"C16": {300, 6000},
	"C17": {400, 8000},
	"C18": {2000, 40000},
	"C19": {3000, 80000},
	"C20": {6000, 200000},
}

func runsFor(c *Check, tier string) int {
	if v, ok := tierRuns[c.ID]; ok {
		if tier == "thorough" {
			return v[1]
		}
		return v[0]
	}
	if n := c.Runs[tier]; n > 0 {
		return n
	}
	return c.Runs["quick"]
}
