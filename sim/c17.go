package main

// C17: concurrent EVM instances do not interfere; Cancel is safe.
//
// Scheduled tier (replayable): 2-4 independent worlds, one executor each (extra EIPs,
// Aspects bound, journals), interleaved at every seam event by the seeded scheduler;
// each executor's digest must equal its solo digest. Cancel (F6) is injected by a
// canceller task at yield k of a looping, calling program and bounded-progress
// invariants are checked.
//
// Race tier (not schedule-controlled, stated as such): the same executors free-running
// on real threads in a binary built with -race; verdict = race report or digest
// mismatch.

import (
	"crypto/sha256"
	"fmt"
	"os"
	"os/exec"
	"path/filepath"
	"strings"
	"sync"
	"time"
)

func padExec(sub *Scenario, i int) *Scenario {
	c := sub.Clone()
	ex := c.Execs[0]
	c.Execs = make([]Exec, i+1)
	c.Execs[i] = ex
	for k := range c.Faults {
		c.Faults[k].Ex = i
	}
	return c
}

func exDigest(l *Log, ex int) string {
	h := sha256.New()
	for i := range l.Evs {
		e := l.Evs[i]
		if e.Ex != ex || e.K == evSwitch {
			continue
		}
		e.Seq = 0
		h.Write([]byte(e.Render()))
		h.Write([]byte{0})
	}
	return fmt.Sprintf("%x", h.Sum(nil))
}

// fullDigest: the executor's event stream plus the canonical view of what its tracer
// recorded (results, call tree, every journal query) - nothing recorded by one EVM may be
// visible through another.
func fullDigest(l *Log, ex int, e *SutEnv) string {
	view, _ := canonEnv(e.Sc, e, 1)
	h := sha256.Sum256([]byte(view))
	return exDigest(l, ex) + fmt.Sprintf("%x", h[:8])
}

func cancelFault(sub *Scenario) *Fault {
	for i := range sub.Faults {
		if sub.Faults[i].Kind == "cancel" {
			return &sub.Faults[i]
		}
	}
	return nil
}

func annotFor(env *SutEnv) func(e *Ev) {
	return func(e *Ev) {
		if !e.Create {
			e.N = uint64(env.St.GetCodeSize(e.To))
		} else {
			e.N = uint64(len(e.In))
		}
	}
}

func soloDigest(sub *Scenario, i int) (string, *Log) {
	p := padExec(sub, i)
	l := NewLog()
	e := NewSutEnv(p, i, l, true)
	e.Rec.Annot = annotFor(e)
	e.RunAll()
	drainSwallowed()
	return fullDigest(l, i, e), l
}

func genSpinWorld(r *RNG, seed uint64) *Scenario {
	sc := &Scenario{Prop: "C17", Seed: seed, Fork: pick(r, []string{"Berlin", "London", "Shanghai", "Cancun"}), Block: genBlock(r), Tracer: "rec", Profile: "cancel"}
	sc.Accounts = append(sc.Accounts, Account{Addr: eoaA, Balance: "0xffffffffffffffffffff"})
	// contract 1: helper with its own bounded loop; contract 0: unbounded loop that calls the helper
	helper := &Program{M: []Macro{{K: "loop", N: 2 + r.Intn(5), Body: []Macro{{K: "op", Op: "ADD", A: []string{"0x1", "0x2"}}, {K: "op", Op: "SSTORE", A: []string{"0x1", "0x5"}}}},
		{K: "term", Op: "RETURN", A: []string{"0x0", "0x20"}}}}
	body := []Macro{{K: "op", Op: "MUL", A: []string{genVal(r), genVal(r)}, Dst: 1}}
	if r.P(2, 3) {
		body = append(body, Macro{K: "call", Op: pick(r, []string{"CALL", "STATICCALL", "DELEGATECALL"}), A: []string{"GAS", contractAddr(1), "0x0", "0x0", "0x0", "0x0", "0x20"}})
	}
	if r.Bool() {
		body = append(body, Macro{K: "if", A: []string{"0x0"}, Body: []Macro{{K: "op", Op: "SSTORE", A: []string{"0x2", genVal(r)}}}})
	}
	spin := &Program{M: []Macro{{K: "spin", Body: body}}}
	sc.Accounts = append(sc.Accounts, Account{Addr: contractAddr(0), Nonce: 1, Code: spin}, Account{Addr: contractAddr(1), Nonce: 1, Code: helper})
	sc.Execs = []Exec{{Txs: []Tx{{Kind: "call", From: eoaA, To: contractAddr(0), Gas: uint64(300000 + r.Intn(700000))}}}}
	sc.Faults = []Fault{{Kind: "cancel", Tx: 0, At: 1 + r.Intn(1500), Arg: pick(r, []string{"once", "double"})}}
	if r.P(1, 10) {
		sc.Faults[0].At = 1 // before the first instruction
	}
	return sc
}

func genC17(seed uint64, tier string) *Scenario {
	r := NewRNG(seed)
	sc := &Scenario{Prop: "C17", Seed: seed, Fork: "Cancun"}
	n := 2 + r.Intn(3)
	for i := 0; i < n; i++ {
		s := mix64(seed + uint64(i)*977 + 1)
		var sub *Scenario
		switch r.Intn(6) {
		case 0, 1:
			sub = genStdScenario(s, "C17", "Cancun")
			if len(sub.ExtraEIPs) == 0 && r.Bool() {
				sub.ExtraEIPs = []int{pick(r, []int{1884, 3198, 3855, 3860})} // forces the copy-on-write of the jump table
			}
		case 2:
			sub = genTreeScenario(s, treeOpts{prop: "C17", bindProb: 50, aspectKind: "mixed", journal: true})
		case 3:
			sub = genTreeScenario(s, treeOpts{prop: "C17", bindProb: 0, journal: true, wide: true})
		case 4:
			sub = genSpinWorld(r, s)
		default:
			sub = genStdScenario(s, "C17", "Shanghai")
		}
		sub.Execs = sub.Execs[:1]
		if r.P(1, 3) {
			// a frame that dies on an undefined instruction: the error's text is formatted (and the
			// instruction named) by whoever looks at it - tracer, join point, host - in every
			// instance that meets one, so anything shared behind that formatting is exercised
			for k := range sub.Accounts {
				if p := sub.Accounts[k].Code; p != nil {
					undef := []byte{0x0c, 0x0d, 0x0e, 0x0f, 0x1e, 0x1f, 0x21, 0x22, 0x23, 0x24, 0x25, 0x26, 0x27, 0x28, 0x29, 0x2a, 0x2b, 0x2c, 0x2d, 0x2e, 0x2f,
						0x49, 0x4a, 0x4b, 0x4c, 0x4d, 0x4e, 0x4f, 0xa5, 0xa6, 0xa7, 0xa8, 0xa9, 0xaa, 0xab, 0xac, 0xad, 0xae, 0xaf, 0xb0, 0xb1, 0xb2,
						0xb5, 0xb6, 0xb7, 0xb8, 0xb9, 0xba, 0xbb, 0xbc, 0xbd, 0xbe, 0xbf, 0xc0, 0xc1, 0xc2, 0xc3, 0xc4, 0xc5, 0xc6, 0xc7, 0xc8, 0xc9,
						0xca, 0xcb, 0xcc, 0xcd, 0xce, 0xcf, 0xd0, 0xd1, 0xd2, 0xd3, 0xd4, 0xd5, 0xd6, 0xd7, 0xd8, 0xd9, 0xda, 0xdb, 0xdc, 0xdd, 0xde,
						0xdf, 0xe8, 0xe9, 0xea, 0xeb, 0xec, 0xed, 0xee, 0xef, 0xf6, 0xf7, 0xf8, 0xf9, 0xfb, 0xfc}
					at := r.Intn(len(p.M) + 1)
				if r.Bool() {
					at = r.Intn(2) // early enough to be reached whatever the rest does
					if at > len(p.M) {
						at = len(p.M)
					}
				}
					m := Macro{K: "raw", Data: hx([]byte{undef[r.Intn(len(undef))]})}
					p.M = append(p.M[:at], append([]Macro{m}, p.M[at:]...)...)
					break
				}
			}
		}
		sc.Subs = append(sc.Subs, sub)
	}
	sc.Sched = Sched{SwitchPPM: pick(r, []int{10, 100, 300, 500, 900}), Seed: r.U64()}
	return sc
}

type stepCap struct{}

func c17Run(sc *Scenario, st *Stats) []Violation {
	var vs []Violation
	add := func(rule, sig string, seq int, format string, a ...interface{}) {
		vs = append(vs, Violation{Prop: "C17", Rule: rule, Sig: sig, Seq: seq, Msg: fmt.Sprintf(format, a...)})
	}
	if sc.Profile == "race" {
		// replay of a race-tier finding: re-run the same seeds under the race detector
		for _, f := range raceTier(checks["C17"], "quick", sc.Seed, st) {
			vs = append(vs, f.V)
		}
		return vs
	}
	n := len(sc.Subs)
	solo := make([]string, n)
	for i, sub := range sc.Subs {
		if cancelFault(sub) == nil {
			solo[i], _ = soloDigest(sub, i)
		}
	}
	l := NewLog()
	sched := NewScheduler(sc.Sched, l)
	l.sched = sched
	envs := make([]*SutEnv, n)
	cancelSeq := make([]int, n)
	for i, sub := range sc.Subs {
		i := i
		p := padExec(sub, i)
		e := NewSutEnv(p, i, l, true)
		e.Rec.Annot = annotFor(e)
		envs[i] = e
		cancelSeq[i] = -1
		sched.Spawn(fmt.Sprintf("ex%d", i), e.RunAll)
		if cf := cancelFault(sub); cf != nil {
			arg := cf.Arg
			sched.InjectAt(i, cf.At, "canceller", func() {
				if e.EVM == nil {
					return
				}
				e.EVM.Cancel()
				if arg == "double" {
					e.EVM.Cancel()
				}
				l.Fired("F6.cancel")
				ev := l.Add(Ev{Ex: i, K: evInject, Name: "cancel"})
				cancelSeq[i] = ev.Seq
			})
		}
	}
	sched.Run()
	l.sched = nil
	for _, s := range drainSwallowed() {
		add("C17.panic", swallowedSite(s), l.Len(), "panic swallowed inside a join point: %s", tail(s, 800))
	}
	st.AbsorbLog(l)
	st.Inter[sched.InterleavingHash()]++
	st.Faults["F9.schedule-perturbation"] += sched.Switches
	h, steps := shapeHash(l)
	st.Shape(h^sched.InterleavingHash(), steps >= 10)
	if len(sc.Sched.Choices) == 0 && sc.Sched.SwitchPPM > 0 {
		// make the schedule explicit for replay / minimisation
		sc.Sched.Choices = append([]int{}, sched.Recorded...)
	}
	for i, e := range envs {
		for ti, r := range e.Results {
			if r.Panic != "" {
				add("C17.panic", r.PanicSite, r.EvTo, "executor %d tx %d panicked: %s", i, ti, r.Panic)
			}
		}
		if cancelFault(sc.Subs[i]) == nil {
			if d := fullDigest(l, i, e); d != solo[i] {
				_, sl := soloDigest(sc.Subs[i], i)
				add("C17.interference", "digest-differs", l.Len(), "executor %d run interleaved with %d others (%d context switches) differs from its solo run: %s", i, n-1, sched.Switches, firstEvDiff(sl, l, i))
			}
			continue
		}
		// Cancel invariants
		cs := cancelSeq[i]
		if cs < 0 {
			st.Probes["cancel-after-execution-finished"]++
			continue
		}
		st.Probes["cancel-landed-in-running-execution"]++
		hist := BuildHistory(l.Evs, i)
		for _, p := range hist.Problems {
			add("C17.cancel-bookkeeping", "unbalanced", cs, "after Cancel the tracer callbacks are unbalanced: %s", p)
		}
		for _, f := range hist.Frames {
			after := 0
			for j, s := range f.Steps {
				if s.Seq < cs {
					continue
				}
				after++
				if (s.Op == 0x56 || s.Op == 0x57) && s.Err == "" && j != len(f.Steps)-1 {
					add("C17.cancel-progress", "jump-completed", s.Seq, "a jump at pc %d completed after Cancel had returned (frame entered at seq %d)", s.PC, f.EnterSeq)
					break
				}
			}
			if f.CodeLen > 0 && after > f.CodeLen+1 {
				add("C17.cancel-progress", "too-many-steps", cs, "a frame executed %d instructions after Cancel; its code is %d bytes long", after, f.CodeLen)
			}
		}
		if e.EVM != nil {
			if cur := e.EVM.Tracer().CallTree().Current(); cur != nil {
				add("C17.cancel-bookkeeping", "calltree-open", cs, "after a cancelled execution returned the call tree still has an open call")
			}
			if !e.EVM.Cancelled() {
				add("C17.cancel-bookkeeping", "flag-lost", cs, "Cancelled() is false after Cancel()")
			}
		}
	}
	return vs
}

func firstEvDiff(solo, inter *Log, ex int) string {
	var a, b []Ev
	for _, e := range solo.Evs {
		if e.Ex == ex {
			a = append(a, e)
		}
	}
	for _, e := range inter.Evs {
		if e.Ex == ex && e.K != evSwitch {
			b = append(b, e)
		}
	}
	for i := 0; i < len(a) && i < len(b); i++ {
		x, y := a[i], b[i]
		x.Seq, y.Seq = 0, 0
		if x.Render() != y.Render() {
			return fmt.Sprintf("event %d of the executor: solo %q, interleaved %q", i, x.Render(), y.Render())
		}
	}
	return fmt.Sprintf("event counts differ: solo %d, interleaved %d", len(a), len(b))
}

// ---------------------------------------------------------------------------------
// race tier (only meaningful in a binary built with -race)

func raceOne(sc *Scenario) []string {
	var problems []string
	n := len(sc.Subs)
	solo := make([]string, n)
	// The solo reference runs come AFTER the concurrent phase: run first, they would perform
	// every first use (lazily filled tables, memoised names) alone and in order, and the
	// concurrent phase would only ever read what they left behind.
	var wg sync.WaitGroup
	got := make([]string, n)
	pan := make([]string, n)
	for i, sub := range sc.Subs {
		i, sub := i, sub
		wg.Add(1)
		go func() {
			defer wg.Done()
			p := padExec(sub, i)
			l := NewLog()
			e := NewSutEnv(p, i, l, true)
			e.Rec.Annot = annotFor(e)
			cf := cancelFault(sub)
			done := make(chan struct{})
			if cf != nil {
				spinN := cf.At * 50
				go func() {
					// no synchronisation with the executor on purpose
					x := 0
					for k := 0; k < spinN; k++ {
						x += k
					}
					_ = x
					for e.evmForRace() == nil {
						select {
						case <-done:
							return
						default:
						}
					}
					e.evmForRace().Cancel()
				}()
			}
			e.RunAll()
			close(done)
			for _, r := range e.Results {
				if r.Panic != "" {
					pan[i] = r.Panic
				}
			}
			got[i] = fullDigest(l, i, e)
		}()
	}
	wg.Wait()
	drainSwallowed()
	for i, sub := range sc.Subs {
		if cancelFault(sub) == nil {
			solo[i], _ = soloDigest(sub, i)
		}
	}
	for i := range sc.Subs {
		if pan[i] != "" {
			problems = append(problems, fmt.Sprintf("executor %d panicked: %s", i, pan[i]))
		}
		if cancelFault(sc.Subs[i]) == nil && got[i] != solo[i] {
			problems = append(problems, fmt.Sprintf("executor %d running concurrently differs from its solo run", i))
		}
	}
	return problems
}

// race <base> <n>: prints RACE-PROBLEM lines; the race detector reports on stderr.
func raceMain(args []string) int {
	var base, n uint64
	fmt.Sscan(args[0], &base)
	fmt.Sscan(args[1], &n)
	deadline := time.Now().Add(time.Duration(envInt("VERIF_RACE_SECONDS", 40)) * time.Second)
	runs := 0
	for i := uint64(0); i < n && time.Now().Before(deadline); i++ {
		sc := genC17(seedFor(base, "C17-race", i), "quick")
		for _, p := range raceOne(sc) {
			fmt.Printf("RACE-PROBLEM run=%d seed=%d %s\n", i, sc.Seed, p)
		}
		runs++
	}
	fmt.Printf("RACE-RUNS %d\n", runs)
	return 0
}

func raceTier(c *Check, tier string, base uint64, st *Stats) []Found {
	bin := filepath.Join(verifRoot(), "bin", "artsim-race")
	if _, err := os.Stat(bin); err != nil {
		fmt.Fprintln(os.Stderr, "harness: race binary missing (", bin, ")")
		os.Exit(2)
	}
	n := "100"
	secs := "75"
	if tier == "thorough" {
		n, secs = "2000", "420"
	}
	cmd := exec.Command(bin, "race", fmt.Sprint(base), n)
	cmd.Env = append(os.Environ(), "GORACE=halt_on_error=0 exitcode=0", "VERIF_RACE_SECONDS="+secs, "GOMAXPROCS=16")
	out, err := cmd.CombinedOutput()
	s := string(out)
	var found []Found
	if err != nil && !strings.Contains(s, "RACE-RUNS") {
		fmt.Fprintln(os.Stderr, "harness: race tier failed to run:", err, tail(s, 2000))
		os.Exit(2)
	}
	for _, line := range strings.Split(s, "\n") {
		if strings.HasPrefix(line, "RACE-RUNS ") {
			var k int
			fmt.Sscan(line[10:], &k)
			st.Extra["race-tier-runs"] += k
		}
	}
	if i := strings.Index(s, "WARNING: DATA RACE"); i >= 0 {
		rep := s[i:]
		if j := strings.Index(rep, "=================="); j > 0 {
			rep = rep[:j]
		}
		site := "unknown"
		for _, ln := range strings.Split(rep, "\n") {
			t := strings.TrimSpace(ln)
			if strings.HasPrefix(t, repoPrefix) {
				site = t
				if k := strings.Index(site, " "); k > 0 {
					site = site[:k]
				}
				break
			}
		}
		found = append(found, Found{V: Violation{Prop: "C17", Rule: "C17.race", Sig: site, Msg: "race detector report:\n" + tail(rep, 3000)},
			Scenario: &Scenario{Prop: "C17", Seed: base, Profile: "race", Params: map[string]int{"n": 60}}})
	}
	for _, line := range strings.Split(s, "\n") {
		if strings.HasPrefix(line, "RACE-PROBLEM") {
			found = append(found, Found{V: Violation{Prop: "C17", Rule: "C17.race-interference", Sig: "concurrent-differs-from-solo", Msg: line},
				Scenario: &Scenario{Prop: "C17", Seed: base, Profile: "race", Params: map[string]int{"n": 60}}})
			break
		}
	}
	return found
}

func init() {
	register(&Check{ID: "C17", Level: "exploration",
		Rule:   "2-4 independent worlds (standard programs with extra EIPs forcing jump-table copy-on-write, call trees with WASM Aspects bound, journal-heavy trees, looping programs) run side by side; scheduled tier: seeded switch decisions at every seam event (switch probability 1%-90%), oracle = per-executor digest equal to solo digest; Cancel injected by a canceller task at yield k (incl. before the first instruction, double Cancel), oracle = no jump completes after Cancel, no frame runs more instructions than its code is long, bookkeeping closed; race tier: same worlds free-running under -race; distinct = hash of event kinds x interleaving hash",
		Assume: []string{"the serialising scheduler cannot expose data races, hence the separate -race tier, which is not schedule-controlled and whose reports do not replay bit-identically"},
		Real:   []string{"/repo/vm (jump tables, interpreter, EVM.Cancel, pooled stacks, shared constants)", "aspect-core global Aspect instance + runtime pool", "wasmtime"},
		Stub:   []string{"scheduler (seeded baton)", "canceller task", "AspectProvider"},
		Gen:    genC17, Run: c17Run, RaceTier: true})
}
