package main

// Call-tree scenarios for the join-point / call-tree / journal family (C04-C08, C10,
// C13, C18 balance, C19 histories): structured contracts with state effects before,
// inside and after each call, value transfers, creates, failing terminators,
// re-entrancy, and Aspects bound to a random subset of contracts.

import (
	"fmt"
	"math/big"
	"strings"

	"github.com/ethereum/go-ethereum/crypto"
)

type treeOpts struct {
	prop        string
	bindProb    int    // per cent chance that a contract has Aspects bound
	aspectKind  string // noop | burn | mixed
	journal     bool   // include journal opcodes (C10/C13/C16)
	journalSome bool   // include them in one scenario in three (key registrations share the per-account root with the balance journal)
	gasStable   bool   // no GAS opcode, constant call gas (C06.diff)
	maxAspects  int
	wide        bool // >= 8 children per key (C16 map-order amplification)
	callInside  bool // bind Aspects that call back into the EVM (F4)
	multiTx     bool
}

func slotHex(i int) string { return hxu(uint64(i)) }

func nameWord(s string) []Macro {
	// Solidity-style memory string at 0x200: length word then bytes
	b := []byte(s)
	ms := []Macro{{K: "op", Op: "MSTORE", A: []string{"0x200", hxu(uint64(len(b)))}}}
	ms = append(ms, storeBytes(0x220, b)...)
	return ms
}

// purify removes every state-modifying macro (SSTORE, LOG, CREATE, value transfers).
func purify(ms []Macro) []Macro {
	var out []Macro
	for _, m := range ms {
		switch {
		case m.K == "op" && (m.Op == "SSTORE" || strings.HasPrefix(m.Op, "LOG") || m.Op == "TSTORE"):
			continue
		case m.K == "create":
			continue
		case m.K == "call":
			m.A = append([]string{}, m.A...)
			if len(m.A) > 2 {
				m.A[2] = "0x0"
			}
			if strings.HasPrefix(m.Flag, "s:") {
				m.Flag = "m:0x1c0"
			}
		case m.K == "if" || m.K == "loop":
			m.Body = purify(m.Body)
		}
		out = append(out, m)
	}
	return out
}

// shortString: a storage word holding a well-formed Solidity short string (1..31 bytes,
// sometimes with leading zero bytes in the content).
func shortString(r *RNG) string {
	n := 1 + r.Intn(31)
	w := make([]byte, 32)
	copy(w, r.Bytes(n))
	if r.P(1, 4) {
		w[0] = 0
	}
	w[31] = byte(2 * n)
	return hx(w)
}

func typeID(s string) string { return hx(append(make([]byte, 32-len(s)), []byte(s)...)) }

// journalVar registers state variable `name` at `slot` (value type, offset 0) and
// journals its current value. Returns macros.
func journalVar(name string, slot int) []Macro {
	ms := nameWord(name)
	// VSVJNAL pops: namePtr, slot, offset, typeId
	ms = append(ms, Macro{K: "op", Op: "VSVJNAL", A: []string{"0x200", slotHex(slot), "0x0", typeID("uint256")}})
	return ms
}

func journalChange(slot int) Macro {
	// VVJNAL pops: slot, offset, typeSize, typeId
	return Macro{K: "op", Op: "VVJNAL", A: []string{slotHex(slot), "0x0", "0x20", typeID("uint256")}}
}

func genTreeScenario(seed uint64, o treeOpts) *Scenario {
	r := NewRNG(seed)
	if o.journalSome && (seed>>9)%3 == 0 {
		o.journal = true
	}
	forks := []string{"Byzantium", "Constantinople", "Petersburg", "Istanbul", "Berlin", "London", "Merge", "Shanghai", "Cancun"}
	sc := &Scenario{Prop: o.prop, Seed: seed, Fork: pick(r, forks), Block: genBlock(r), Tracer: "rec"}
	n := 2 + r.Intn(3)
	sc.Accounts = append(sc.Accounts, Account{Addr: eoaA, Balance: "0xffffffffffffffffffff"}, Account{Addr: eoaB, Balance: "0x3e8"},
		Account{Addr: codeless, Balance: "0x1"})
	failing := r.Intn(n + 2) // index of a contract with a failing terminator (>= n: none)
	forcePure := map[string]bool{}
	for i := 0; i < n; i++ {
		p := &Program{}
		var pre, body, post []Macro
		hasStr := false
		hasLong := false
		creates := false
		if o.journal && r.P(1, 3) {
			// a long (40-byte) string journaled with the reference-change instruction: its data
			// lives in the slots after the hash of the slot number
			hasLong = true
			pre = append(pre, nameWord("lstr")...)
			pre = append(pre, Macro{K: "op", Op: "RSVJNAL", A: []string{"0x200", "0x7", typeID("string")}})
			pre = append(pre, Macro{K: "op", Op: "SSTORE", A: []string{"0x7", "0x51"}})
			pre = append(pre, Macro{K: "op", Op: "VRJNAL", A: []string{"0x7", typeID("string")}})
		}
		if o.journal {
			pre = append(pre, journalVar(fmt.Sprintf("v%d", i), 1)...)
			if r.Bool() {
				pre = append(pre, journalVar("shared", 2)...)
			}
			if r.P(2, 3) {
				// a short string variable journaled with the reference-change instruction
				hasStr = true
				pre = append(pre, nameWord("str")...)
				pre = append(pre, Macro{K: "op", Op: "RSVJNAL", A: []string{"0x200", "0x6", typeID("string")}})
				pre = append(pre, Macro{K: "op", Op: "SSTORE", A: []string{"0x6", shortString(r)}})
				pre = append(pre, Macro{K: "op", Op: "VRJNAL", A: []string{"0x6", typeID("string")}})
			}
		}
		if o.wide && i < 2 {
			// a mapping with exactly 8 members: one full bucket of the Go runtime's map, so every
			// random iteration start yields a different rotation of any order-dependent answer
			pre = append(pre, nameWord("m")...)
			pre = append(pre, Macro{K: "op", Op: "RSVJNAL", A: []string{"0x200", "0x3", typeID("mapping")}})
			for k := 0; k < 8; k++ {
				pre = append(pre, Macro{K: "op", Op: "IVVVJNAL", A: []string{"0x3", hxu(uint64(100 + k)), hxu(uint64(k + 1)), "0x0", typeID("uint256"), typeID("mapping")}})
				if r.Bool() {
					pre = append(pre, Macro{K: "op", Op: "VVJNAL", A: []string{hxu(uint64(100 + k)), "0x0", "0x20", typeID("uint256")}})
				}
			}
		}
		pre = append(pre, Macro{K: "op", Op: "SSTORE", A: []string{"0x1", hxu(uint64(0x100 + r.Intn(200)))}})
		if o.journal {
			pre = append(pre, journalChange(1))
		}
		if r.Bool() {
			pre = append(pre, Macro{K: "op", Op: "LOG1", A: []string{"0x0", "0x20", hxu(uint64(0xa0 + i))}})
		}
		ncalls := r.Intn(3)
		if i == 0 && ncalls == 0 {
			ncalls = 1
		}
		if i == n-1 {
			ncalls = r.Intn(2)
		}
		for k := 0; k < ncalls; k++ {
			var target string
			reenter := false
			switch x := r.Intn(12); {
			case x == 0:
				target = pick(r, []string{codeless, ghost, "0x4", "0x2", eoaB, "0x1", "0x9", "0x6", "0x8"})
			case x == 1 && i > 0:
				target = contractAddr(r.Intn(i + 1)) // back edge (re-entrancy), leaf behaviour forced by calldata
				reenter = true
			default:
				if i+1 < n {
					target = contractAddr(i + 1 + r.Intn(n-i-1))
				} else {
					target = contractAddr(r.Intn(n))
					reenter = true
				}
			}
			kind := pick(r, []string{"CALL", "CALL", "CALL", "CALL", "DELEGATECALL", "STATICCALL", "CALLCODE"})
			if kind == "STATICCALL" && !reenter && strings.HasPrefix(target, "0xc0de0000") && r.P(2, 3) {
				forcePure[target] = true // the callee must be able to run (and call on) in static context
			}
			// calldata: first word zero => callee performs its own calls; non-zero => leaf
			inSize := pick(r, []int{0, 0, 4, 32, 36, 68, 100})
			first := "0x0"
			if reenter || r.P(1, 5) {
				first = "0x1"
				if inSize < 32 {
					inSize = 32
				}
			}
			body = append(body, Macro{K: "op", Op: "MSTORE", A: []string{"0x80", first}})
			if inSize > 32 {
				body = append(body, Macro{K: "op", Op: "MSTORE", A: []string{"0xa0", genVal(r)}})
			}
			gas := "GAS"
			if o.gasStable {
				gas = hxu(uint64(pick(r, []int{30000, 60000, 120000, 250000})))
			} else {
				switch r.Intn(8) {
				case 0:
					gas = hxu(uint64(r.Intn(2500)))
					if r.P(1, 4) {
						gas = "0x0" // the callee starts (and ends) with no gas at all
					}
				case 1, 2:
					gas = hxu(uint64(20000 + r.Intn(100000)))
				}
			}
			val := "0x0"
			if (kind == "CALL" || kind == "CALLCODE") && r.P(1, 3) {
				val = hxu(uint64(1 + r.Intn(100)))
				if r.P(1, 10) {
					val = "0xffffffffffff"
				}
			}
			outOff := pick(r, []string{"0x100", "0x80", "0x100"})
			body = append(body, Macro{K: "call", Op: kind, A: []string{gas, target, val, "0x80", hxu(uint64(inSize)), outOff, hxu(uint64(r.Intn(0x40)))},
				Flag: "s:" + hxu(uint64(0x10+k))})
			// overwrite the argument area afterwards (C08 aliasing)
			if r.Bool() {
				body = append(body, Macro{K: "op", Op: "MSTORE", A: []string{"0x80", genVal(r)}})
			}
			body = append(body, Macro{K: "op", Op: "SSTORE", A: []string{hxu(uint64(3 + k)), hxu(uint64(0x200 + r.Intn(100)))}})
			if o.journal && r.Bool() {
				body = append(body, Macro{K: "op", Op: "SSTORE", A: []string{"0x1", hxu(uint64(0x300 + r.Intn(3)))}}, journalChange(1))
			}
		}
		if r.P(1, 4) {
			// create with endowment
			init := InitCodeReturning([]Macro{{K: "op", Op: "SSTORE", A: []string{"0x7", "0x77"}}}, []byte{0x60, 0x00, 0x60, 0x00, 0xf3})
			switch r.Intn(5) {
			case 0:
				init = &Program{M: []Macro{{K: "op", Op: "SSTORE", A: []string{"0x7", "0x77"}}, {K: "term", Op: "REVERT", A: []string{"0x0", "0x0"}}}}
			case 1:
				init = &Program{M: []Macro{{K: "term", Op: "INVALID"}}}
			}
			if o.journal && r.Bool() {
				ctor := journalVar("made", 5)
				ctor = append(ctor, Macro{K: "op", Op: "SSTORE", A: []string{"0x5", "0x55"}}, Macro{K: "op", Op: "VVJNAL", A: []string{"0x5", "0x0", "0x20", typeID("uint256")}})
				init = InitCodeReturning(ctor, []byte{0x00})
			}
			p.D = append(p.D, DataBlob{Prog: init})
			op := "CREATE"
			if forkAtLeast(sc.Fork, "Constantinople") && r.Bool() {
				op = "CREATE2"
			}
			val := "0x0"
			if r.Bool() {
				val = hxu(uint64(r.Intn(60)))
			}
			if r.P(1, 5) {
				// endowment nobody can pay: refused before any frame exists
				val = pick(r, []string{"0xffffffffffffffff", "0x1000000000000002a", "0x30000000000000000000000000000000000000000000000007"})
			}
			cm := Macro{K: "create", Op: op, N: len(p.D) - 1, A: []string{val, hxu(uint64(r.Intn(2))), "0x300"}, Flag: "s:0x20"}
			body = append(body, cm)
			creates = true
			if op == "CREATE2" && r.P(1, 3) {
				body = append(body, cm) // second attempt at the same address: collision
			}
		}
		post = append(post, Macro{K: "op", Op: "SSTORE", A: []string{"0x9", hxu(uint64(0x900 + i))}})
		if o.journal {
			post = append(post, Macro{K: "op", Op: "SSTORE", A: []string{"0x1", hxu(uint64(0x400 + r.Intn(2)))}}, journalChange(1))
			if hasStr {
				post = append(post, Macro{K: "op", Op: "SSTORE", A: []string{"0x6", shortString(r)}})
				post = append(post, Macro{K: "op", Op: "VRJNAL", A: []string{"0x6", typeID("string")}})
			}
		}
		p.M = append(p.M, pre...)
		if len(body) > 0 {
			p.M = append(p.M, Macro{K: "if", A: []string{"CD:0x0"}, Body: body})
		}
		p.M = append(p.M, post...)
		if forcePure[contractAddr(i)] || (i > 0 && r.P(1, 4)) {
			// a read-only contract: survives being entered through STATICCALL, so that calls
			// (and their join points) also happen below static frames
			p.M = purify(p.M)
		}
		// terminator
		switch {
		case i == failing && i > 0 && r.P(1, 4):
			// REVERT with a well-formed Error(string) payload: selector 08c379a0, offset 0x20, length 4, "nope"
			p.M = append(p.M,
				Macro{K: "op", Op: "MSTORE", A: []string{"0x0", "0x08c379a000000000000000000000000000000000000000000000000000000000"}},
				Macro{K: "op", Op: "MSTORE", A: []string{"0x4", "0x20"}},
				Macro{K: "op", Op: "MSTORE", A: []string{"0x24", "0x4"}},
				Macro{K: "op", Op: "MSTORE", A: []string{"0x44", "0x6e6f706500000000000000000000000000000000000000000000000000000000"}},
				Macro{K: "term", Op: "REVERT", A: []string{"0x0", "0x64"}})
		case i == failing && i > 0:
			p.M = append(p.M, pick(r, []Macro{{K: "term", Op: "REVERT", A: []string{"0x0", "0x20"}}, {K: "term", Op: "INVALID"},
				{K: "term", Op: "REVERT", A: []string{"0x0", "0x0"}}, {K: "raw", Data: "0x5050"}}))
		case r.P(1, 12):
			p.M = append(p.M, Macro{K: "term", Op: "SELFDESTRUCT", A: []string{eoaB}})
		case r.Bool():
			p.M = append(p.M, Macro{K: "term", Op: "RETURN", A: []string{"0x0", hxu(uint64(pick(r, []int{0, 32, 64})))}})
		default:
			p.M = append(p.M, Macro{K: "term", Op: "STOP"})
		}
		acc := Account{Addr: contractAddr(i), Balance: hxu(uint64(1000 + r.Intn(4000))), Nonce: 1, Code: p,
			Storage: map[string]string{"0x1": "0x11", "0x9": "0x99"}}
		if creates && r.P(1, 12) {
			acc.Nonce = ^uint64(0) // creator at the nonce limit: every create is refused up front
		}
		if hasLong {
			// distinct words around both candidate data positions (hash of the 32-byte slot and hash of
			// its trimmed bytes), so that reading from a shifted position is visible in the journal
			for _, seedBytes := range [][]byte{{7}, append(make([]byte, 31), 7)} {
				h := new(big.Int).SetBytes(crypto.Keccak256(seedBytes))
				for k := int64(0); k < 8; k++ {
					pos := new(big.Int).Add(h, big.NewInt(k))
					pos.Mod(pos, two256)
					acc.Storage[hxBig(pos)] = hxu(uint64(0xd000 + 16*int64(len(seedBytes)) + k))
				}
			}
		}
		sc.Accounts = append(sc.Accounts, acc)
		if r.Intn(100) < o.bindProb {
			b := Binding{Contract: contractAddr(i), Point: pick(r, []string{"pre", "post", "both", "both"})}
			na := 1
			if o.maxAspects > 1 {
				na = 1 + r.Intn(o.maxAspects)
			}
			for a := 0; a < na; a++ {
				spec := AspectSpec{ID: fmt.Sprintf("0xa5%02x%036x", i, a+1), Kind: "noop"}
				switch o.aspectKind {
				case "burn":
					spec.Kind = "burn"
					spec.N = uint64(pick(r, []int{0, 10, 100, 1000, 10000}))
				case "mixed":
					spec.Kind = pick(r, []string{"noop", "burn", "ret"})
					spec.N = uint64(r.Intn(500))
					if spec.Kind == "ret" {
						spec.Arg = hx(r.Bytes(r.Intn(40)))
					}
				}
				if o.callInside && r.P(1, 2) {
					spec.Kind = "call"
					spec.N = uint64(1 + r.Intn(2))
					tgt := contractAddr(r.Intn(n))
					spec.Arg = hx(staticCallReq(addr(eoaA), addr(tgt), append(make([]byte, 31), 1), 200000))
				}
				b.Aspects = append(b.Aspects, spec)
			}
			sc.Bindings = append(sc.Bindings, b)
		}
	}
	ntx := 1
	if o.multiTx {
		ntx = 1 + r.Intn(3)
	}
	var ex Exec
	for t := 0; t < ntx; t++ {
		tx := Tx{Kind: "call", From: eoaA, To: contractAddr(0), Gas: uint64(400000 + r.Intn(1600000))}
		if t > 0 {
			tx.To = contractAddr(r.Intn(n))
			tx.SameEVM = r.Bool()
			if r.P(1, 4) {
				tx.Kind = "create"
				tx.To = ""
				tx.Init = InitCodeReturning([]Macro{{K: "call", Op: "CALL", A: []string{"GAS", contractAddr(r.Intn(n)), "0x0", "0x0", "0x0", "0x0", "0x0"}, Flag: "s:0x30"}}, []byte{0x00})
			}
			if r.P(1, 5) {
				tx.JPOff = true
			}
		}
		if r.P(1, 3) {
			tx.Value = hxu(uint64(r.Intn(500)))
		}
		switch r.Intn(4) {
		case 0:
			tx.Data = hx(make([]byte, 32))
		case 1:
			tx.Data = hx(append(make([]byte, 4), r.Bytes(32)...))
		}
		ex.Txs = append(ex.Txs, tx)
	}
	sc.Execs = []Exec{ex}
	if (o.prop == "C07" || o.prop == "C08" || o.prop == "C04") && r.P(1, 60) {
		// depth-limit variant: contract 0 calls itself with all gas until the 1024 limit refuses
		// the call, then every level attempts a CREATE (refused for depth at the bottom levels)
		deep := &Program{D: []DataBlob{{Prog: &Program{M: []Macro{{K: "term", Op: "STOP"}}}}}}
		deep.M = []Macro{
			{K: "call", Op: "CALL", A: []string{"GAS", contractAddr(0), "0x0", "0x0", "0x0", "0x0", "0x0"}, Flag: "s:0x10"},
			{K: "if", A: []string{"CD:0x0"}, Body: []Macro{{K: "create", Op: "CREATE", N: 0, A: []string{"0x0", "0x0", "0x300"}, Flag: "s:0x20"}}},
			{K: "term", Op: "STOP"},
		}
		for i := range sc.Accounts {
			if sc.Accounts[i].Addr == contractAddr(0) {
				sc.Accounts[i].Code = deep
			}
		}
		sc.Bindings = nil
		sc.Profile = "deep"
		sc.Execs[0].Txs = sc.Execs[0].Txs[:1]
		sc.Execs[0].Txs[0] = Tx{Kind: "call", From: eoaA, To: contractAddr(0), Gas: 1_000_000_000_000_000}
	}
	return sc
}
