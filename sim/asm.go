package main

// Macro assembler. Programs are lists of macro-operations; every macro leaves the
// operand stack as it found it, so that dropping any macro (the minimiser's main
// move) still yields a well-formed program.

import (
	"encoding/hex"
	"fmt"
	"math/big"
	"strings"
)

type Macro struct {
	K    string   `json:"k"`              // op | call | create | term | if | loop | raw
	Op   string   `json:"op,omitempty"`   // opcode name
	A    []string `json:"a,omitempty"`    // operands, top of stack first (hex), "GAS" allowed for call gas
	Dst  int      `json:"dst,omitempty"`  // op: 0 = pop result, >0 = MSTORE result at Dst-1
	Flag string   `json:"flag,omitempty"` // call/create: "" pop | "s:<hexslot>" SSTORE | "m:<hexoff>" MSTORE
	N    int      `json:"n,omitempty"`    // loop count / data index for create
	Body []Macro  `json:"body,omitempty"` // if / loop
	Data string   `json:"data,omitempty"` // raw bytes (hex)
}

type DataBlob struct {
	Hex  string   `json:"hex,omitempty"`
	Prog *Program `json:"prog,omitempty"` // assembled recursively when set (init code)
}

type Program struct {
	M []Macro    `json:"m"`
	D []DataBlob `json:"d,omitempty"`
}

type opInfo struct {
	b      byte
	pops   int
	pushes int
}

var opTable = map[string]opInfo{
	"STOP": {0x00, 0, 0}, "ADD": {0x01, 2, 1}, "MUL": {0x02, 2, 1}, "SUB": {0x03, 2, 1}, "DIV": {0x04, 2, 1},
	"SDIV": {0x05, 2, 1}, "MOD": {0x06, 2, 1}, "SMOD": {0x07, 2, 1}, "ADDMOD": {0x08, 3, 1}, "MULMOD": {0x09, 3, 1},
	"EXP": {0x0a, 2, 1}, "SIGNEXTEND": {0x0b, 2, 1},
	"LT": {0x10, 2, 1}, "GT": {0x11, 2, 1}, "SLT": {0x12, 2, 1}, "SGT": {0x13, 2, 1}, "EQ": {0x14, 2, 1},
	"ISZERO": {0x15, 1, 1}, "AND": {0x16, 2, 1}, "OR": {0x17, 2, 1}, "XOR": {0x18, 2, 1}, "NOT": {0x19, 1, 1},
	"BYTE": {0x1a, 2, 1}, "SHL": {0x1b, 2, 1}, "SHR": {0x1c, 2, 1}, "SAR": {0x1d, 2, 1},
	"KECCAK256": {0x20, 2, 1},
	"ADDRESS":   {0x30, 0, 1}, "BALANCE": {0x31, 1, 1}, "ORIGIN": {0x32, 0, 1}, "CALLER": {0x33, 0, 1},
	"CALLVALUE": {0x34, 0, 1}, "CALLDATALOAD": {0x35, 1, 1}, "CALLDATASIZE": {0x36, 0, 1}, "CALLDATACOPY": {0x37, 3, 0},
	"CODESIZE": {0x38, 0, 1}, "CODECOPY": {0x39, 3, 0}, "GASPRICE": {0x3a, 0, 1}, "EXTCODESIZE": {0x3b, 1, 1},
	"EXTCODECOPY": {0x3c, 4, 0}, "RETURNDATASIZE": {0x3d, 0, 1}, "RETURNDATACOPY": {0x3e, 3, 0}, "EXTCODEHASH": {0x3f, 1, 1},
	"BLOCKHASH": {0x40, 1, 1}, "COINBASE": {0x41, 0, 1}, "TIMESTAMP": {0x42, 0, 1}, "NUMBER": {0x43, 0, 1},
	"DIFFICULTY": {0x44, 0, 1}, "GASLIMIT": {0x45, 0, 1}, "CHAINID": {0x46, 0, 1}, "SELFBALANCE": {0x47, 0, 1},
	"BASEFEE": {0x48, 0, 1},
	"POP":     {0x50, 1, 0}, "MLOAD": {0x51, 1, 1}, "MSTORE": {0x52, 2, 0}, "MSTORE8": {0x53, 2, 0},
	"SLOAD": {0x54, 1, 1}, "SSTORE": {0x55, 2, 0}, "PC": {0x58, 0, 1}, "MSIZE": {0x59, 0, 1}, "GAS": {0x5a, 0, 1},
	"JUMPDEST": {0x5b, 0, 0}, "TLOAD": {0x5c, 1, 1}, "TSTORE": {0x5d, 2, 0}, "MCOPY": {0x5e, 3, 0}, "PUSH0": {0x5f, 0, 1},
	// EIP-1153 at the bytes go-ethereum v1.12.0 uses
	"TLOAD_B3": {0xb3, 1, 1}, "TSTORE_B4": {0xb4, 2, 0},
	"LOG0": {0xa0, 2, 0}, "LOG1": {0xa1, 3, 0}, "LOG2": {0xa2, 4, 0}, "LOG3": {0xa3, 5, 0}, "LOG4": {0xa4, 6, 0},
	// Artela journal opcodes
	"RSVJNAL": {0xe0, 3, 0}, "VSVJNAL": {0xe1, 4, 0}, "IRVVJNAL": {0xe2, 6, 0}, "IRVRJNAL": {0xe3, 5, 0},
	"IVVVJNAL": {0xe4, 6, 0}, "IVVRJNAL": {0xe5, 5, 0}, "VVJNAL": {0xe6, 4, 0}, "VRJNAL": {0xe7, 2, 0},
	"CREATE": {0xf0, 3, 1}, "CALL": {0xf1, 7, 1}, "CALLCODE": {0xf2, 7, 1}, "RETURN": {0xf3, 2, 0},
	"DELEGATECALL": {0xf4, 6, 1}, "CREATE2": {0xf5, 4, 1}, "STATICCALL": {0xfa, 6, 1}, "REVERT": {0xfd, 2, 0},
	"INVALID": {0xfe, 0, 0}, "SELFDESTRUCT": {0xff, 1, 0},
}

func init() {
	for i := 1; i <= 16; i++ {
		opTable[fmt.Sprintf("DUP%d", i)] = opInfo{byte(0x80 + i - 1), i, i + 1}
		opTable[fmt.Sprintf("SWAP%d", i)] = opInfo{byte(0x90 + i - 1), i + 1, i + 1}
	}
}

func unhex(s string) []byte {
	s = strings.TrimPrefix(s, "0x")
	if len(s)%2 == 1 {
		s = "0" + s
	}
	b, err := hex.DecodeString(s)
	if err != nil {
		panic(harnessErr("bad hex " + s))
	}
	return b
}

func hx(b []byte) string { return "0x" + hex.EncodeToString(b) }

func hxu(v uint64) string { return fmt.Sprintf("0x%x", v) }

func hxBig(v *big.Int) string { return "0x" + v.Text(16) }

type asmCtx struct {
	out     []byte
	fixups  []fixup // label references to patch
	dataLbl []int   // label ids for data blobs
	labels  map[int]int
	nextLbl int
}

type fixup struct {
	pos   int
	label int
	add   int
}

func (c *asmCtx) emit(b ...byte) { c.out = append(c.out, b...) }

func (c *asmCtx) push(v []byte) {
	// strip leading zeros, at least one byte, at most 32
	for len(v) > 1 && v[0] == 0 {
		v = v[1:]
	}
	if len(v) == 0 {
		v = []byte{0}
	}
	if len(v) > 32 {
		v = v[len(v)-32:]
	}
	c.emit(byte(0x60 + len(v) - 1))
	c.emit(v...)
}

func (c *asmCtx) pushHex(s string) { c.push(unhex(s)) }

func (c *asmCtx) pushU(v uint64) { c.push(new(big.Int).SetUint64(v).Bytes()) }

func (c *asmCtx) newLabel() int { c.nextLbl++; return c.nextLbl }

func (c *asmCtx) pushLabel(l int) {
	c.emit(0x61, 0, 0) // PUSH2
	c.fixups = append(c.fixups, fixup{pos: len(c.out) - 2, label: l})
}

func (c *asmCtx) place(l int) { c.labels[l] = len(c.out) }

func (c *asmCtx) storeFlag(flag string) {
	switch {
	case strings.HasPrefix(flag, "s:"):
		c.pushHex(flag[2:])
		c.emit(0x55)
	case strings.HasPrefix(flag, "m:"):
		c.pushHex(flag[2:])
		c.emit(0x52)
	default:
		c.emit(0x50)
	}
}

func arg(a []string, i int) string {
	if i < len(a) && a[i] != "" {
		return a[i]
	}
	return "0x0"
}

func (c *asmCtx) macros(ms []Macro, p *Program) {
	for _, m := range ms {
		c.macro(m, p)
	}
}

func (c *asmCtx) macro(m Macro, p *Program) {
	switch m.K {
	case "op":
		info, ok := opTable[m.Op]
		if !ok {
			panic(harnessErr("unknown op " + m.Op))
		}
		for i := info.pops - 1; i >= 0; i-- {
			c.pushHex(arg(m.A, i))
		}
		c.emit(info.b)
		for i := 0; i < info.pushes; i++ {
			if i == 0 && m.Dst > 0 {
				c.pushU(uint64(m.Dst - 1))
				c.emit(0x52)
			} else if i == 0 && m.Dst < 0 {
				// result sink in storage: SSTORE(-Dst, result)
				c.pushU(uint64(-m.Dst))
				c.emit(0x55)
			} else {
				c.emit(0x50)
			}
		}
	case "call":
		// A = [gas, addr, value, inOff, inSize, outOff, outSize]
		c.pushHex(arg(m.A, 6))
		c.pushHex(arg(m.A, 5))
		c.pushHex(arg(m.A, 4))
		c.pushHex(arg(m.A, 3))
		if m.Op == "CALL" || m.Op == "CALLCODE" {
			c.pushHex(arg(m.A, 2))
		}
		c.pushHex(arg(m.A, 1))
		if arg(m.A, 0) == "GAS" {
			c.emit(0x5a)
		} else {
			c.pushHex(arg(m.A, 0))
		}
		c.emit(opTable[m.Op].b)
		c.storeFlag(m.Flag)
	case "create":
		// A = [value, salt, memOff]; N = data blob index
		if m.N < 0 || m.N >= len(p.D) {
			// dangling reference after minimisation: create with empty init code
			if m.Op == "CREATE2" {
				c.pushHex(arg(m.A, 1))
			}
			c.pushU(0)
			c.pushU(0)
			c.pushHex(arg(m.A, 0))
			c.emit(opTable[m.Op].b)
			c.storeFlag(m.Flag)
			return
		}
		blob := blobBytes(p.D[m.N])
		c.pushU(uint64(len(blob)))
		c.pushLabel(c.dataLbl[m.N])
		c.pushHex(arg(m.A, 2))
		c.emit(0x39) // CODECOPY
		if m.Op == "CREATE2" {
			c.pushHex(arg(m.A, 1))
		}
		c.pushU(uint64(len(blob)))
		c.pushHex(arg(m.A, 2))
		c.pushHex(arg(m.A, 0))
		c.emit(opTable[m.Op].b)
		c.storeFlag(m.Flag)
	case "term":
		info := opTable[m.Op]
		for i := info.pops - 1; i >= 0; i-- {
			c.pushHex(arg(m.A, i))
		}
		c.emit(info.b)
	case "if":
		// skips Body when A[0] (or calldata word "CD:<off>") is non-zero
		end := c.newLabel()
		cond := arg(m.A, 0)
		if strings.HasPrefix(cond, "CD:") {
			c.pushHex(cond[3:])
			c.emit(0x35)
		} else {
			c.pushHex(cond)
		}
		c.pushLabel(end)
		c.emit(0x57)
		c.macros(m.Body, p)
		c.place(end)
		c.emit(0x5b)
	case "loop":
		top := c.newLabel()
		n := m.N
		if n < 1 {
			n = 1
		}
		c.pushU(uint64(n))
		c.place(top)
		c.emit(0x5b)
		c.macros(m.Body, p)
		c.pushU(1)
		c.emit(0x90, 0x03, 0x80) // SWAP1 SUB DUP1
		c.pushLabel(top)
		c.emit(0x57, 0x50) // JUMPI POP
	case "spin":
		// unbounded loop (for Cancel): JUMPDEST body PUSH top JUMP
		top := c.newLabel()
		c.place(top)
		c.emit(0x5b)
		c.macros(m.Body, p)
		c.pushLabel(top)
		c.emit(0x56)
	case "raw":
		c.emit(unhex(m.Data)...)
	case "retdata":
		// CODECOPY blob N to memory 0 and RETURN it
		if m.N < 0 || m.N >= len(p.D) {
			c.pushU(0)
			c.pushU(0)
			c.emit(0xf3)
			return
		}
		blob := blobBytes(p.D[m.N])
		c.pushU(uint64(len(blob)))
		c.pushLabel(c.dataLbl[m.N])
		c.pushU(0)
		c.emit(0x39)
		c.pushU(uint64(len(blob)))
		c.pushU(0)
		c.emit(0xf3)
	default:
		panic(harnessErr("unknown macro kind " + m.K))
	}
}

func blobBytes(d DataBlob) []byte {
	if d.Prog != nil {
		return Assemble(d.Prog)
	}
	return unhex(d.Hex)
}

// Assemble turns a program into bytecode: macros, then STOP, then data blobs.
func Assemble(p *Program) []byte {
	c := &asmCtx{labels: map[int]int{}}
	for range p.D {
		c.dataLbl = append(c.dataLbl, c.newLabel())
	}
	c.macros(p.M, p)
	c.emit(0x00)
	for i, d := range p.D {
		c.place(c.dataLbl[i])
		c.emit(blobBytes(d)...)
	}
	for _, f := range c.fixups {
		at, ok := c.labels[f.label]
		if !ok {
			panic(harnessErr("unplaced label"))
		}
		if at > 0xffff {
			at = 0xffff
		}
		c.out[f.pos] = byte(at >> 8)
		c.out[f.pos+1] = byte(at)
	}
	return c.out
}

// InitCodeReturning builds init code that runs ctor macros and then returns runtime.
func InitCodeReturning(ctor []Macro, runtime []byte) *Program {
	p := &Program{D: []DataBlob{{Hex: hx(runtime)}}}
	p.M = append(p.M, ctor...)
	p.M = append(p.M, Macro{K: "retdata", N: 0})
	return p
}
