package main

// C11: operation histories over the exported tracer API (SaveStateKey, SaveStateChange,
// SaveCall, ExitCall) replayed against a small executable reference model, with every
// lookup compared after every operation. Histories range over a fixed catalogue of
// variables in which each name path denotes one (slot, offset, type) and vice versa;
// catalogue entries deliberately share slots with distinct offsets and distinct types.

import (
	"bytes"
	"fmt"
	"sort"

	avm "github.com/artela-network/artela-evm/vm"
	"github.com/ethereum/go-ethereum/common"
	"github.com/holiman/uint256"
)

type catVar struct {
	name   string
	parent int // index into catalogue, -1 top level
	slot   uint64
	offset uint64
	typ    string
}

// The catalogue: top-level variables a..f, nested members under m (mapping at slot 3)
// and s (struct at slot 6), and second-level members under m[k1].
var catalogue = []catVar{
	{"a", -1, 0, 0, "uint128"},  // 0
	{"b", -1, 0, 16, "uint64"},  // 1  shares slot 0, distinct offset
	{"c", -1, 0, 24, "uint64"},  // 2
	{"m", -1, 3, 0, "mapping"},  // 3
	{"s", -1, 6, 0, "struct"},   // 4
	{"d", -1, 1, 0, "uint256"},  // 5
	{"e", -1, 1, 0, "int256"},   // 6  shares (slot 1, offset 0) with d, distinct type
	{"k1", 3, 100, 0, "struct"}, // 7  m[k1]
	{"k2", 3, 101, 0, "uint256"},
	{"k3", 3, 101, 0, "address"}, // shares (slot, offset) with k2 under the same parent, distinct type
	{"x", 4, 6, 0, "uint8"},      // 10 s.x
	{"y", 4, 6, 1, "uint8"},      // 11 s.y same slot, offset 1
	{"z", 4, 7, 0, "uint256"},    // 12
	{"f1", 7, 200, 0, "uint256"}, // 13 m[k1].f1
	{"f2", 7, 200, 0, "bytes32"}, // 14 same place, distinct type
	{"f3", 7, 201, 31, "uint8"},  // 15
}

var c11Accounts = []string{"0xacc0000000000000000000000000000000000001", "0xacc0000000000000000000000000000000000002"}

func genC11(seed uint64, tier string) *Scenario {
	r := NewRNG(seed)
	sc := &Scenario{Prop: "C11", Seed: seed, Fork: "Cancun"}
	n := 3 + r.Intn(28)
	depth := 0
	for i := 0; i < n; i++ {
		acct := uint64(r.Intn(2))
		v := uint64(r.Intn(len(catalogue)))
		switch x := r.Intn(21); {
		case x == 20:
			// a NEW key (another slot, or another type at the same place) registered under the
			// name that sibling v already owns: the first registration keeps the name
			sc.Ops = append(sc.Ops, Op{K: "shadow", N: []uint64{acct, v, uint64(r.Intn(4))}})
		case x < 7:
			sc.Ops = append(sc.Ops, Op{K: "reg", N: []uint64{acct, v}})
		case x == 7:
			// re-registration of key v under the name of a sibling: must be idempotent on the key and
			// must not get in the way of the sibling's own (earlier or later) registration
			var sibs []uint64
			for w := range catalogue {
				if w != int(v) && catalogue[w].parent == catalogue[v].parent {
					sibs = append(sibs, uint64(w))
				}
			}
			if len(sibs) > 0 {
				sc.Ops = append(sc.Ops, Op{K: "alias", N: []uint64{acct, v, pick(r, sibs)}})
			}
		case x < 14:
			sc.Ops = append(sc.Ops, Op{K: "chg", N: []uint64{acct, v, uint64(r.Intn(3))}})
		case x == 14:
			// offset out of range / beyond 2^64
			sc.Ops = append(sc.Ops, Op{K: "badoff", N: []uint64{acct, v, uint64(r.Intn(12))}})
		case x == 15:
			// change for a key that is in nobody's catalogue
			sc.Ops = append(sc.Ops, Op{K: "ghost", N: []uint64{acct, uint64(900 + r.Intn(3)), uint64(r.Intn(3))}})
		case x < 18:
			sc.Ops = append(sc.Ops, Op{K: "enter"})
			depth++
		default:
			if depth > 0 {
				sc.Ops = append(sc.Ops, Op{K: "exit"})
				depth--
			} else {
				sc.Ops = append(sc.Ops, Op{K: "reg", N: []uint64{acct, v}})
			}
		}
	}
	return sc
}

type c11Rec struct {
	registered bool
	changes    map[uint64][][]byte
}

func catPath(v int) (string, [][]byte) {
	var chain []int
	for x := v; x >= 0; x = catalogue[x].parent {
		chain = append([]int{x}, chain...)
	}
	var idx [][]byte
	for _, c := range chain[1:] {
		idx = append(idx, []byte(catalogue[c].name))
	}
	return catalogue[chain[0]].name, idx
}

func c11Run(sc *Scenario, st *Stats) []Violation {
	var vs []Violation
	tr := avm.NewTracer()
	model := map[[2]uint64]*c11Rec{} // (account, var)
	get := func(a, v uint64) *c11Rec {
		k := [2]uint64{a, v}
		if model[k] == nil {
			model[k] = &c11Rec{changes: map[uint64][][]byte{}}
		}
		return model[k]
	}
	// model of the call cursor
	var stack []uint64
	count := uint64(0)
	curIdx := func() uint64 {
		if len(stack) == 0 {
			return 0
		}
		return stack[len(stack)-1]
	}
	add := func(step int, rule, sig, format string, a ...interface{}) {
		vs = append(vs, Violation{Prop: "C11", Rule: rule, Sig: sig, Seq: step, Msg: fmt.Sprintf("after operation %d (%s): ", step, opText(sc.Ops[step])) + fmt.Sprintf(format, a...)})
	}
	hsh := uint64(0)
	regs := 0
	for step, op := range sc.Ops {
		hsh = mix64(hsh ^ uint64(len(op.K))<<8 ^ uint64(op.K[0]))
		for _, n := range op.N {
			hsh = mix64(hsh ^ n)
		}
		switch op.K {
		case "enter":
			tr.SaveCall(common.Address{1}, nil, nil, uint256.NewInt(0), uint256.NewInt(0))
			stack = append(stack, count)
			count++
		case "exit":
			tr.ExitCall(0, nil, nil)
			if len(stack) > 0 {
				stack = stack[:len(stack)-1]
			}
		case "alias":
			a, v, w := op.N[0], int(op.N[1]), int(op.N[2])
			cv := catalogue[v]
			if !get(a, uint64(v)).registered {
				break // only an existing key can be re-registered
			}
			var parent *uint256.Int
			var ptid common.Hash
			if cv.parent >= 0 {
				parent = uint256.NewInt(catalogue[cv.parent].slot)
				ptid = common.BytesToHash([]byte(catalogue[cv.parent].typ))
			}
			st.Probes["re-registrations-under-another-name"]++
			if err := tr.SaveStateKey(addr(c11Accounts[a]), parent, uint256.NewInt(cv.slot), uint256.NewInt(cv.offset), common.BytesToHash([]byte(cv.typ)), ptid, []byte(catalogue[w].name)); err != nil {
				add(step, "C11.register", "reregistration-refused", "re-registration of existing key %s was refused: %v", cv.name, err)
			}
		case "shadow":
			a, v, j := op.N[0], int(op.N[1]), op.N[2]
			cv := catalogue[v]
			if !get(a, uint64(v)).registered {
				break // the name must already be owned by v
			}
			var parent *uint256.Int
			var ptid common.Hash
			if cv.parent >= 0 {
				parent = uint256.NewInt(catalogue[cv.parent].slot)
				ptid = common.BytesToHash([]byte(catalogue[cv.parent].typ))
			}
			// j even: same (slot, offset), a type nobody else uses; j odd: a slot nobody else uses
			sslot, styp := cv.slot, fmt.Sprintf("shadow%d", j)
			if j%2 == 1 {
				sslot, styp = 700+uint64(v)*4+j, cv.typ
			}
			st.Probes["new-keys-under-an-owned-name"]++
			if err := tr.SaveStateKey(addr(c11Accounts[a]), parent, uint256.NewInt(sslot), uint256.NewInt(cv.offset), common.BytesToHash([]byte(styp)), ptid, []byte(cv.name)); err != nil {
				add(step, "C11.register", "refused", "registration of a new key (slot %d type %s) under the registered parent of %s was refused: %v", sslot, styp, cv.name, err)
			}
		case "reg":
			a, v := op.N[0], int(op.N[1])
			cv := catalogue[v]
			acct := addr(c11Accounts[a])
			var parent *uint256.Int
			var ptid common.Hash
			parentOK := true
			if cv.parent >= 0 {
				parent = uint256.NewInt(catalogue[cv.parent].slot)
				ptid = common.BytesToHash([]byte(catalogue[cv.parent].typ))
				parentOK = get(a, uint64(cv.parent)).registered
			}
			err := tr.SaveStateKey(acct, parent, uint256.NewInt(cv.slot), uint256.NewInt(cv.offset), common.BytesToHash([]byte(cv.typ)), ptid, []byte(cv.name))
			if parentOK {
				if err != nil {
					add(step, "C11.register", "refused", "registration of %s with a registered parent was refused: %v", cv.name, err)
				} else {
					get(a, uint64(v)).registered = true
					regs++
				}
			} else if err == nil {
				add(step, "C11.register", "unknown-parent-accepted", "registration of %s under an unregistered parent was accepted", cv.name)
			}
		case "chg", "badoff", "ghost":
			a := op.N[0]
			acct := addr(c11Accounts[a])
			val := []byte{byte(0xa0 + op.N[2])}
			switch op.K {
			case "chg":
				v := int(op.N[1])
				cv := catalogue[v]
				err := tr.SaveStateChange(acct, uint256.NewInt(cv.slot), uint256.NewInt(cv.offset), common.BytesToHash([]byte(cv.typ)), val)
				rec := get(a, uint64(v))
				if rec.registered {
					if err != nil {
						add(step, "C11.change", "refused", "change for registered key %s was refused: %v", cv.name, err)
					} else {
						l := rec.changes[curIdx()]
						if len(l) == 0 || !bytes.Equal(l[len(l)-1], val) {
							rec.changes[curIdx()] = append(l, val)
						}
					}
				} else if err == nil {
					add(step, "C11.change", "unregistered-accepted", "change for unregistered key %s was accepted", cv.name)
				}
			case "badoff":
				cv := catalogue[op.N[1]]
				off := uint256.NewInt(32 + op.N[2])
				switch op.N[2] {
				case 2:
					off = new(uint256.Int).Lsh(uint256.NewInt(1), 64)
				case 3, 4, 5, 6, 7, 8, 9:
					// values whose low byte or low 64 bits look like a valid offset
					off = uint256.NewInt([]uint64{255, 256, 256 + cv.offset, 287, 512 + 5, 65536, 1<<32 + 1}[op.N[2]-3])
				case 10:
					off = uint256.NewInt(^uint64(0))
				case 11:
					off = new(uint256.Int).Add(new(uint256.Int).Lsh(uint256.NewInt(1), 64), uint256.NewInt(cv.offset))
				}
				if err := tr.SaveStateChange(acct, uint256.NewInt(cv.slot), off, common.BytesToHash([]byte(cv.typ)), val); err == nil {
					add(step, "C11.change", "bad-offset-accepted", "change with offset %s was accepted", off.Hex())
				}
				if err := tr.SaveStateKey(acct, nil, uint256.NewInt(cv.slot), off, common.BytesToHash([]byte(cv.typ)), common.Hash{}, []byte("bad")); err == nil {
					add(step, "C11.register", "bad-offset-accepted", "registration with offset %s was accepted", off.Hex())
				}
			case "ghost":
				if err := tr.SaveStateChange(acct, uint256.NewInt(op.N[1]), uint256.NewInt(0), common.BytesToHash([]byte("uint256")), val); err == nil {
					add(step, "C11.change", "ghost-accepted", "change for a key nobody registered (slot %d) was accepted", op.N[1])
				}
			}
		}
		// every lookup agrees with the model and with each other
		sc11 := tr.StateChanges()
		for a := uint64(0); a < 2; a++ {
			acct := addr(c11Accounts[a])
			for v, cv := range catalogue {
				rec := get(a, uint64(v))
				name, idx := catPath(v)
				key := sc11.FindKeyIndices(acct, name, idx...)
				byName := sc11.Variable(acct, name, idx...)
				bySlot, err := sc11.Slot(acct, uint256.NewInt(cv.slot), uint256.NewInt(cv.offset), common.BytesToHash([]byte(cv.typ)))
				if err != nil {
					add(step, "C11.lookup", "slot-error", "Slot lookup of %s failed: %v", cv.name, err)
					continue
				}
				pathOK := rec.registered
				for x := cv.parent; x >= 0; x = catalogue[x].parent {
					pathOK = pathOK && get(a, uint64(x)).registered
				}
				if !rec.registered {
					if key != nil && pathOK {
						add(step, "C11.lookup", "unregistered-found", "%s is not registered but the name path finds a key", cv.name)
					}
					if bySlot != nil {
						add(step, "C11.lookup", "unregistered-found", "%s is not registered but the slot path finds changes", cv.name)
					}
					continue
				}
				if key == nil {
					add(step, "C11.lookup", "registered-not-found/name", "%s (slot %d offset %d type %s) is registered but the name path does not find it", cv.name, cv.slot, cv.offset, cv.typ)
					continue
				}
				if key.Slot() == nil || key.Slot().Uint64() != cv.slot || uint64(key.Offset()) != cv.offset {
					add(step, "C11.lookup", "name-reaches-other-key", "name path of %s reaches a key at slot %v offset %d; it was registered at slot %d offset %d", cv.name, key.Slot(), key.Offset(), cv.slot, cv.offset)
				}
				if byName != bySlot {
					add(step, "C11.agree", "name-vs-slot", "%s (slot %d offset %d type %s): lookup by name and by slot reach different records (%v vs %v)", cv.name, cv.slot, cv.offset, cv.typ, byName != nil, bySlot != nil)
				}
				// contents equal the model (by whichever path finds something)
				for _, got := range []*avm.StorageChanges{byName, bySlot} {
					if len(rec.changes) == 0 {
						if got != nil && len(got.Changes()) > 0 {
							add(step, "C11.contents", "spurious", "%s has recorded changes although none was journaled", cv.name)
						}
						continue
					}
					if got == nil {
						add(step, "C11.contents", "lost", "%s: journaled changes are not returned", cv.name)
						continue
					}
					if !sameLists(got.Changes(), rec.changes) {
						add(step, "C11.contents", "differs", "%s: recorded %v, model %v", cv.name, got.Changes(), rec.changes)
					}
				}
				// children indices exactly those registered under it
				var want []string
				for w, cw := range catalogue {
					if cw.parent == v && get(a, uint64(w)).registered {
						want = append(want, cw.name)
					}
				}
				sort.Strings(want)
				for qi, got := range [][][]byte{sc11.IndicesOfChanges(acct, name, idx...), key.ChildrenIndices()} {
					var g []string
					for _, b := range got {
						g = append(g, string(b))
					}
					sort.Strings(g)
					if fmt.Sprint(g) != fmt.Sprint(want) {
						add(step, "C11.children", fmt.Sprintf("indices-%d", qi), "%s reports child indices %v; registered under it: %v", cv.name, g, want)
					}
				}
				if n := len(key.Children()); n != len(want) {
					add(step, "C11.children", "count", "%s has %d children objects; %d registered under it", cv.name, n, len(want))
				}
			}
		}
		if len(vs) > 0 {
			break
		}
	}
	st.Steps += len(sc.Ops)
	st.Probes["registrations-accepted"] += regs
	for _, op := range sc.Ops {
		switch op.K {
		case "badoff":
			st.Probes["out-of-range-offset-ops"]++
		case "ghost":
			st.Probes["changes-for-unknown-keys"]++
		case "enter":
			st.Probes["calls-entered"]++
		}
	}
	st.Shape(hsh, regs >= 2)
	return vs
}

func sameLists(a, b map[uint64][][]byte) bool {
	if len(a) != len(b) {
		return false
	}
	for k, la := range a {
		lb, ok := b[k]
		if !ok || len(la) != len(lb) {
			return false
		}
		for i := range la {
			if !bytes.Equal(la[i], lb[i]) {
				return false
			}
		}
	}
	return true
}

func opText(o Op) string { return fmt.Sprintf("%s%v", o.K, o.N) }

func init() {
	register(&Check{ID: "C11", Level: "exploration",
		Rule:   "history = 3-30 operations (register top-level / nested, journal change, out-of-range offset, change for an unknown key, enter call, exit call) over 2 accounts and a 16-entry catalogue of variables sharing slots with distinct offsets and distinct types, parents registered before or after children; after every operation all catalogue entries are looked up by name path and by (slot, offset, type) and compared with a two-map reference model; distinct = hash of the operation sequence; non-trivial = >= 2 accepted registrations",
		Assume: []string{"catalogue keeps names and (slot, offset, type) in bijection: conflicting re-registrations of one name at two places are outside the generated domain", "tracer objects are single-owner: no schedule dimension"},
		Real:   []string{"/repo/vm Tracer / StateChanges / StorageKey / CallTree (exported API)"}, Stub: []string{"none (the tracer is driven directly)"},
		Gen:    genC11, Run: c11Run})
}
