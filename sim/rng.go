package main

// One integer decides everything: every choice in a run is drawn from one
// splitmix64 stream seeded from VERIF_SEED, the property id and the run index.

type RNG struct{ s uint64 }

func NewRNG(seed uint64) *RNG { return &RNG{s: seed} }

func mix64(z uint64) uint64 {
	z += 0x9e3779b97f4a7c15
	z = (z ^ (z >> 30)) * 0xbf58476d1ce4e5b9
	z = (z ^ (z >> 27)) * 0x94d049bb133111eb
	return z ^ (z >> 31)
}

func (r *RNG) U64() uint64 {
	r.s += 0x9e3779b97f4a7c15
	z := r.s
	z = (z ^ (z >> 30)) * 0xbf58476d1ce4e5b9
	z = (z ^ (z >> 27)) * 0x94d049bb133111eb
	return z ^ (z >> 31)
}

// Intn returns a value in [0,n). n<=0 yields 0.
func (r *RNG) Intn(n int) int {
	if n <= 0 {
		return 0
	}
	return int(r.U64() % uint64(n))
}

func (r *RNG) Range(lo, hi int) int { // inclusive
	if hi <= lo {
		return lo
	}
	return lo + r.Intn(hi-lo+1)
}

func (r *RNG) Bool() bool { return r.U64()&1 == 1 }

// P returns true with probability num/den.
func (r *RNG) P(num, den int) bool { return r.Intn(den) < num }

func (r *RNG) Bytes(n int) []byte {
	b := make([]byte, n)
	for i := 0; i < n; i += 8 {
		v := r.U64()
		for j := 0; j < 8 && i+j < n; j++ {
			b[i+j] = byte(v >> (8 * j))
		}
	}
	return b
}

func (r *RNG) Fork() *RNG { return NewRNG(mix64(r.U64())) }

func seedFor(base uint64, prop string, i uint64) uint64 {
	h := base
	for _, c := range []byte(prop) {
		h = mix64(h ^ uint64(c))
	}
	return mix64(h ^ mix64(i))
}

func pick[T any](r *RNG, xs []T) T { return xs[r.Intn(len(xs))] }
