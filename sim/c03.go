package main

// C03 (nothing crashes the VM; bookkeeping closed) and C20 (work per instruction
// bounded by gas): adversarial operands, raw bytes, Artela precompile payloads, all
// fault kinds on. The StateDB wrapper enforces the per-instruction read budget while
// the instruction runs, so a would-be hang becomes a C20 report.

import (
	"fmt"
	"math/big"
	"runtime"
	"strings"
)

var advWords = []string{"0x0", "0x1", "0x1f", "0x20", "0x21", "0x3f", "0x40", "0x41", "0x7f", "0x80", "0xff", "0x100", "0x1000", "0x100000", "0x1000000",
	"0xffffffff", "0x100000000", "0x7fffffffffffffff", "0x8000000000000000", "0xffffffffffffffe0", "0xffffffffffffffff", "0x10000000000000000",
	"0xffffffffffffffffffffffffffffffffffffffffffffffffffffffffffffffff"}

func advWord(r *RNG) string {
	if r.P(1, 4) {
		return hxu(uint64(r.Intn(34)))
	}
	return pick(r, advWords)
}

// stringWord builds a storage word holding a Solidity short string / long-form length.
func stringWord(r *RNG) string {
	w := make([]byte, 32)
	switch r.Intn(7) {
	case 0: // well-formed short string
		n := r.Intn(32)
		copy(w, r.Bytes(n))
		w[31] = byte(2 * n)
	case 1: // short string with leading zero bytes
		n := 1 + r.Intn(31)
		z := r.Intn(n) + 1
		copy(w[z:], r.Bytes(n-z))
		w[31] = byte(2 * n)
	case 2: // long form, moderate length
		l := uint64(32 + r.Intn(200))
		return hxu(2*l + 1)
	case 3: // long form, large
		l := pick(r, []uint64{1 << 12, 1 << 20, 1 << 30, 1 << 40, 1 << 59, 1<<62 - 1})
		return hxBig(new(big.Int).Add(new(big.Int).Mul(new(big.Int).SetUint64(l), big.NewInt(2)), big.NewInt(1)))
	case 4: // inconsistent encodings
		return pick(r, []string{"0x1", "0x3", "0x3f", "0x40", "0x42", "0x7e", "0xfe", "0x101",
			"0xffffffffffffffffffffffffffffffffffffffffffffffffffffffffffffffff",
			"0xfffffffffffffffffffffffffffffffffffffffffffffffffffffffffffffffe",
			"0x8000000000000000000000000000000000000000000000000000000000000001"})
	case 5: // all zero
		return "0x0"
	default:
		return hx(r.Bytes(32))
	}
	return hx(w)
}

// genJournalAdversarial emits memory preparation and one journal instruction with
// operands around every boundary the implementation has to check.
func genJournalAdversarial(r *RNG) []Macro {
	var ms []Macro
	ptr := pick(r, []string{"0x0", "0x20", "0x200", "0x3e0", "0x400", "0x1000", "0xffffffff", "0xffffffffffffffff", "0x10000000000000000", "0x7fffffffffffffe0"})
	if r.P(3, 4) {
		// make memory exist and place a length word at a small pointer
		base := uint64(32 * r.Intn(16))
		ms = append(ms, Macro{K: "op", Op: "MSTORE", A: []string{hxu(base), advWord(r)}})
		if r.Bool() {
			ms = append(ms, Macro{K: "op", Op: "MSTORE", A: []string{hxu(base + 32), hx(r.Bytes(32))}})
		}
		if r.P(2, 3) {
			ptr = hxu(base)
		}
	}
	tid := typeID(pick(r, []string{"uint256", "string", "bytes", "t"}))
	slot := genSlot(r)
	switch r.Intn(8) {
	case 0:
		ms = append(ms, Macro{K: "op", Op: "RSVJNAL", A: []string{ptr, slot, tid}})
	case 1:
		ms = append(ms, Macro{K: "op", Op: "VSVJNAL", A: []string{ptr, slot, advWord(r), tid}})
	case 2:
		ms = append(ms, Macro{K: "op", Op: "IRVVJNAL", A: []string{genSlot(r), slot, ptr, advWord(r), tid, tid}})
	case 3:
		ms = append(ms, Macro{K: "op", Op: "IRVRJNAL", A: []string{genSlot(r), slot, ptr, tid, tid}})
	case 4:
		ms = append(ms, Macro{K: "op", Op: "IVVVJNAL", A: []string{genSlot(r), slot, genVal(r), advWord(r), tid, tid}})
	case 5:
		ms = append(ms, Macro{K: "op", Op: "IVVRJNAL", A: []string{genSlot(r), slot, genVal(r), tid, tid}})
	case 6:
		ms = append(ms, Macro{K: "op", Op: "VVJNAL", A: []string{slot, advWord(r), advWord(r), tid}})
	default:
		if r.Bool() {
			ms = append(ms, Macro{K: "op", Op: "SSTORE", A: []string{slot, stringWord(r)}})
		}
		ms = append(ms, Macro{K: "op", Op: "VRJNAL", A: []string{slot, tid}})
	}
	return ms
}

// abiBytes2 encodes (bytes key, bytes value) the way Solidity does.
func abiBytes2(key, val []byte) []byte {
	pad := func(b []byte) []byte {
		n := (len(b) + 31) / 32 * 32
		out := make([]byte, n)
		copy(out, b)
		return out
	}
	word := func(v uint64) []byte {
		w := make([]byte, 32)
		new(big.Int).SetUint64(v).FillBytes(w)
		return w
	}
	kp, vp := pad(key), pad(val)
	var out []byte
	out = append(out, word(0x40)...)
	out = append(out, word(uint64(0x40+32+len(kp)))...)
	out = append(out, word(uint64(len(key)))...)
	out = append(out, kp...)
	out = append(out, word(uint64(len(val)))...)
	out = append(out, vp...)
	return out
}

func headWords(r *RNG, n int) []byte {
	w := make([]byte, 32)
	var v *big.Int
	switch r.Intn(11) {
	case 9, 10:
		// a bit at or above 2^64 set, low 64 bits small: looks in-range to code that truncates
		v = new(big.Int).Add(new(big.Int).Lsh(big.NewInt(1), uint(pick(r, []int{64, 65, 128, 255}))), big.NewInt(int64(r.Intn(40))))
	case 0:
		v = big.NewInt(0)
	case 1:
		v = big.NewInt(int64(n - 32))
	case 2:
		v = big.NewInt(int64(n))
	case 3:
		v = new(big.Int).Lsh(big.NewInt(1), 63)
	case 4:
		v = new(big.Int).Sub(new(big.Int).Lsh(big.NewInt(1), 64), big.NewInt(32))
	case 5:
		v = new(big.Int).Sub(new(big.Int).Lsh(big.NewInt(1), 64), big.NewInt(1))
	case 6:
		v = new(big.Int).Sub(new(big.Int).Lsh(big.NewInt(1), 256), big.NewInt(1))
	case 7:
		v = big.NewInt(int64(r.Intn(n + 64)))
	default:
		v = new(big.Int).Sub(new(big.Int).Lsh(big.NewInt(1), 64), big.NewInt(int64(r.Intn(70))))
	}
	if v.Sign() < 0 {
		v = big.NewInt(0)
	}
	v.FillBytes(w)
	return w
}

// artelaPayload returns (precompile address, payload).
func artelaPayload(r *RNG) (string, []byte) {
	switch r.Intn(4) {
	case 0: // context read: address || key
		p := append(addr(contractAddr(r.Intn(3))).Bytes(), []byte(pick(r, []string{"k", "key1", "", "a-long-context-key-name"}))...)
		if r.P(1, 4) {
			p = p[:r.Intn(len(p)+1)]
		}
		return "0x64", p
	case 1: // sender lookup: hash
		return "0x65", r.Bytes(pick(r, []int{0, 1, 31, 32, 33, 64}))
	default: // context write: abi (bytes,bytes) and mutations
		p := abiBytes2([]byte(pick(r, []string{"k", "key1", "0123456789abcdef0123456789abcdef-33"})), r.Bytes(pick(r, []int{0, 1, 32, 33, 100})))
		switch r.Intn(6) {
		case 0, 1:
		case 2: // mutate a head or length word
			pos := 32 * r.Intn(len(p)/32)
			copy(p[pos:], headWords(r, len(p)))
		case 3:
			p = p[:r.Intn(len(p)+1)]
		case 4:
			copy(p[0:], headWords(r, len(p)))
			copy(p[32:], headWords(r, len(p)))
		default:
			p = r.Bytes(r.Intn(400))
		}
		return "0x66", p
	}
}

func genArtelaCall(r *RNG, fork string) []Macro {
	target, payload := artelaPayload(r)
	ms := storeBytes(0x200, payload)
	kind := pick(r, []string{"CALL", "CALL", "CALLCODE", "DELEGATECALL", "STATICCALL"})
	ms = append(ms, Macro{K: "call", Op: kind, A: []string{pick(r, []string{"GAS", "0x1388", "0x1387", "0x2710"}), target, "0x0", "0x200", hxu(uint64(len(payload))), "0x600", "0x40"},
		Flag: "m:0x0"})
	return ms
}

const trivialAddr = "0xc0de0000000000000000000000000000000000ff"

// fatAcct holds 2^256-1 wei in the pre-state (a possible pre-state, if not a likely one)
const fatAcct = "0xfa7000000000000000000000000000000000fa70"

// genJournalCoherent: a well-formed key family (state variable, member, member of the
// member) whose registrations and change journals arrive in a random order with
// repetitions - every order is legal input and none may crash the tracer.
func genJournalCoherent(r *RNG) []Macro {
	slots := []string{hxu(uint64(3 + r.Intn(4))), hxu(uint64(0x40 + r.Intn(4))), hxu(uint64(0x80 + r.Intn(4)))}
	tids := []string{typeID(pick(r, []string{"t", "mapping", "uint256"})), typeID(pick(r, []string{"t", "struct", "uint256"})), typeID(pick(r, []string{"uint256", "string"}))}
	ms := nameWord(pick(r, []string{"v", "balances", ""}))
	n := 3 + r.Intn(7)
	reg := -1 // highest level registered so far (an unregistered parent halts the frame: legal, but short)
	for k := 0; k < n; k++ {
		lvl := r.Intn(3)
		if lvl > reg+1 && r.P(4, 5) {
			lvl = reg + 1
		}
		what := r.Intn(5)
		if lvl > reg && r.P(4, 5) {
			what = 0
		}
		switch what {
		case 0, 1: // register level lvl
			if lvl > reg {
				reg = lvl
			}
			switch {
			case lvl == 0 && r.Bool():
				ms = append(ms, Macro{K: "op", Op: "VSVJNAL", A: []string{"0x200", slots[0], "0x0", tids[0]}})
			case lvl == 0:
				ms = append(ms, Macro{K: "op", Op: "RSVJNAL", A: []string{"0x200", slots[0], tids[0]}})
			case r.Bool():
				ms = append(ms, Macro{K: "op", Op: "IVVVJNAL", A: []string{slots[lvl-1], slots[lvl], genVal(r), "0x0", tids[lvl], tids[lvl-1]}})
			default:
				ms = append(ms, Macro{K: "op", Op: "IVVRJNAL", A: []string{slots[lvl-1], slots[lvl], genVal(r), tids[lvl], tids[lvl-1]}})
			}
		case 2, 3: // journal a change of level lvl
			if r.P(1, 3) {
				ms = append(ms, Macro{K: "op", Op: "SSTORE", A: []string{slots[lvl], pick(r, []string{genVal(r), shortString(r)})}})
			}
			if r.P(3, 4) {
				ms = append(ms, Macro{K: "op", Op: "VVJNAL", A: []string{slots[lvl], "0x0", "0x20", tids[lvl]}})
			} else {
				ms = append(ms, Macro{K: "op", Op: "VRJNAL", A: []string{slots[lvl], tids[lvl]}})
			}
		default: // member addressed through memory (index taken from a memory string)
			if lvl == 0 {
				lvl = 1
			}
			if lvl > reg {
				reg = lvl
			}
			if r.Bool() {
				ms = append(ms, Macro{K: "op", Op: "IRVVJNAL", A: []string{slots[lvl-1], slots[lvl], "0x200", "0x0", tids[lvl], tids[lvl-1]}})
			} else {
				ms = append(ms, Macro{K: "op", Op: "IRVRJNAL", A: []string{slots[lvl-1], slots[lvl], "0x200", tids[lvl], tids[lvl-1]}})
			}
		}
	}
	return ms
}

// genJournalLoop: one frame that executes thousands of flat-fee journal instructions -
// the work each of them does must not grow with what was journaled before (C20's
// "loops, copies or allocations of attacker-chosen size for a flat fee", amortised).
func genJournalLoop(seed uint64) *Scenario {
	r := NewRNG(seed ^ 0x100b)
	sc := &Scenario{Prop: "C20", Seed: seed, Fork: pick(r, []string{"Berlin", "London", "Shanghai", "Cancun"}), Block: genBlock(r), Tracer: "rec", Profile: "jloop"}
	sc.Accounts = append(sc.Accounts, Account{Addr: eoaA, Balance: "0xffffffffffffffffffff"})
	n := 2500 + r.Intn(3000)
	p := &Program{}
	tid, ptid := unhex(typeID("uint256")), unhex(typeID("t"))
	switch r.Intn(3) {
	case 0:
		// the same variable takes a new value in every iteration: SSTORE(5, counter); VVJNAL
		p.M = append(p.M, journalVar("v", 5)...)
		p.M = append(p.M, Macro{K: "loop", N: n, Body: []Macro{{K: "raw", Data: "0x80600555"}, journalChange(5)}})
	case 1:
		// two alternating values: every journal is a change against the last entry
		p.M = append(p.M, journalVar("v", 5)...)
		p.M = append(p.M, Macro{K: "loop", N: n / 2, Body: []Macro{
			{K: "op", Op: "SSTORE", A: []string{"0x5", "0x1"}}, journalChange(5),
			{K: "op", Op: "SSTORE", A: []string{"0x5", "0x2"}}, journalChange(5)}})
	default:
		// a new child key (index = slot = counter) under one parent in every iteration, then
		// a change journal on it: PUSH32 ptid PUSH32 tid PUSH1 0 DUP4 DUP5 PUSH1 5 IVVVJNAL ;
		// PUSH32 tid PUSH1 0x20 PUSH1 0 DUP4 VVJNAL
		p.M = append(p.M, nameWord("m")...)
		p.M = append(p.M, Macro{K: "op", Op: "VSVJNAL", A: []string{"0x200", "0x5", "0x0", typeID("t")}})
		var raw []byte
		raw = append(raw, 0x7f)
		raw = append(raw, ptid...)
		raw = append(raw, 0x7f)
		raw = append(raw, tid...)
		raw = append(raw, 0x60, 0x00, 0x83, 0x84, 0x60, 0x05, 0xe4)
		raw = append(raw, 0x7f)
		raw = append(raw, tid...)
		raw = append(raw, 0x60, 0x20, 0x60, 0x00, 0x83, 0xe6)
		p.M = append(p.M, Macro{K: "loop", N: n, Body: []Macro{{K: "raw", Data: hx(raw)}}})
	}
	p.M = append(p.M, Macro{K: "term", Op: "STOP"})
	sc.Accounts = append(sc.Accounts, Account{Addr: contractAddr(0), Balance: "0x10", Nonce: 1, Code: p, Storage: map[string]string{"0x5": "0x55"}})
	sc.Execs = []Exec{{Txs: []Tx{{Kind: "call", From: eoaA, To: contractAddr(0), Gas: 60000000}}}}
	return sc
}

// genCopyLoop: memory is paid for once (96-256 KiB), then copy / hash / log instructions of
// nearly that length run on it repeatedly without expanding it, so that what each of them
// allocates is covered by nothing but its own fee (rule C20.alloc, no-expansion budget).
func genCopyLoop(seed uint64) *Scenario {
	r := NewRNG(seed ^ 0x20c0)
	sc := &Scenario{Prop: "C20", Seed: seed, Fork: pick(r, []string{"Berlin", "London", "Shanghai", "Cancun"}), Block: genBlock(r), Tracer: "rec", Profile: "copyloop"}
	sc.Accounts = append(sc.Accounts, Account{Addr: eoaA, Balance: "0xffffffffffffffffffff"})
	m := 96*1024 + r.Intn(160*1024)
	m -= m % 32
	u := func(v int) string { return fmt.Sprintf("0x%x", v) }
	p := &Program{}
	p.M = append(p.M, Macro{K: "op", Op: "MSTORE", A: []string{u(m - 32), "0x1"}})
	var body []Macro
	for i, k := 0, 1+r.Intn(3); i < k; i++ {
		l := u(m - r.Intn(64))
		src := u(r.Intn(3) * 17)
		switch x := r.Intn(7); {
		case x < 2:
			who := pick(r, []string{contractAddr(0), contractAddr(1), eoaA, "0x00000000000000000000000000000000000000ee"})
			body = append(body, Macro{K: "op", Op: "EXTCODECOPY", A: []string{who, "0x0", src, l}})
		case x == 2:
			body = append(body, Macro{K: "op", Op: "CODECOPY", A: []string{"0x0", src, l}})
		case x == 3:
			body = append(body, Macro{K: "op", Op: "CALLDATACOPY", A: []string{"0x0", src, l}})
		case x == 4 && sc.Fork == "Cancun":
			body = append(body, Macro{K: "op", Op: "MCOPY", A: []string{"0x0", "0x20", u(m - 64)}})
		case x == 5:
			body = append(body, Macro{K: "op", Op: "LOG0", A: []string{"0x0", l}})
		default:
			body = append(body, Macro{K: "op", Op: "KECCAK256", A: []string{"0x0", l}})
		}
	}
	p.M = append(p.M, Macro{K: "loop", N: 2 + r.Intn(5), Body: body})
	p.M = append(p.M, Macro{K: "term", Op: "STOP"})
	q := &Program{M: []Macro{{K: "op", Op: "MSTORE", A: []string{"0x0", "0x1"}}, {K: "term", Op: "STOP"}}}
	sc.Accounts = append(sc.Accounts, Account{Addr: contractAddr(0), Balance: "0x10", Nonce: 1, Code: p})
	sc.Accounts = append(sc.Accounts, Account{Addr: contractAddr(1), Balance: "0x10", Nonce: 1, Code: q})
	sc.Execs = []Exec{{Txs: []Tx{{Kind: "call", From: eoaA, To: contractAddr(0), Gas: 60000000}}}}
	return sc
}

func genC03(seed uint64, tier string) *Scenario {
	r := NewRNG(seed)
	sc := &Scenario{Prop: "C03", Seed: seed, Fork: forkOrder[r.Intn(len(forkOrder))], Block: genBlock(r), Tracer: "rec"}
	if r.P(2, 3) {
		sc.Fork = pick(r, []string{"Berlin", "London", "Shanghai", "Cancun", "Istanbul"})
	}
	sc.Accounts = append(sc.Accounts, Account{Addr: eoaA, Balance: "0xffffffffffffffffffff"}, Account{Addr: eoaB, Balance: "0x3e8"},
		Account{Addr: codeless, Balance: "0x1"}, Account{Addr: trivialAddr, Nonce: 1, RawCode: "0x60005000"},
		Account{Addr: fatAcct, Balance: "0xffffffffffffffffffffffffffffffffffffffffffffffffffffffffffffffff"})
	g := &genCtx{fork: sc.Fork, cancun: sc.Fork == "Cancun"}
	n := 1 + r.Intn(3)
	for i := 0; i < n; i++ {
		g.targets = append(g.targets, contractAddr(i))
	}
	profile := pick(r, []string{"raw", "journal", "journal", "artela", "artela", "mixed", "copy"})
	sc.Profile = profile
	for i := 0; i < n; i++ {
		a := Account{Addr: contractAddr(i), Balance: hxu(uint64(r.Intn(5000))), Nonce: 1}
		a.Storage = map[string]string{}
		for k := 0; k < 1+r.Intn(3); k++ {
			a.Storage[genSlot(r)] = stringWord(r)
		}
		switch {
		case profile == "raw" && r.P(1, 4):
			// code whose jump-destination analysis has to cope with its very end: a taken jump,
			// filler, and a PUSHn as the last byte(s) with some or all of its data missing
			total := 6 + r.Intn(60)
			if r.Bool() {
				total = 8 * (1 + r.Intn(8))
			}
			raw := []byte{0x60, 0x03, 0x56, 0x5b} // PUSH1 3; JUMP; JUMPDEST
			tail := []byte{byte(0x60 + r.Intn(32))}
			if r.Bool() {
				tail[0] = 0x7f
			}
			tail = append(tail, r.Bytes(r.Intn(3))...)
			for len(raw)+len(tail) < total {
				raw = append(raw, pick(r, []byte{0x00, 0x5b, 0x01, 0x50}))
			}
			a.RawCode = hx(append(raw, tail...))
		case profile == "raw" && r.P(2, 3):
			raw := r.Bytes(1 + r.Intn(120))
			for k := range raw { // bias towards journal opcodes and pushes
				switch r.Intn(10) {
				case 0:
					raw[k] = byte(0xe0 + r.Intn(8))
				case 1:
					raw[k] = byte(0x60 + r.Intn(3))
				case 2:
					raw[k] = byte(0x7f)
				}
			}
			a.RawCode = hx(raw)
		default:
			p := &Program{}
			saved := curProg
			curProg = p
			m := 2 + r.Intn(8)
			for k := 0; k < m; k++ {
				x := r.Intn(10)
				switch {
				case profile == "copy" && x < 7:
					// copy / hash / log instructions with sizes that are only affordable if the gas
					// rule forgets to charge for them (warm targets, existing memory, large lengths)
					big := pick(r, []string{"0x100000", "0x800000", "0x4000000", "0x20000", "0xffffffff"})
					tgt := pick(r, []string{contractAddr(i), contractAddr(0), "0x4", "0x1", eoaA})
					off := hxu(uint64(32 * r.Intn(4)))
					switch r.Intn(7) {
					case 0:
						p.M = append(p.M, Macro{K: "op", Op: "EXTCODECOPY", A: []string{tgt, off, "0x0", big}})
					case 1:
						p.M = append(p.M, Macro{K: "op", Op: "CODECOPY", A: []string{off, "0x0", big}})
					case 2:
						p.M = append(p.M, Macro{K: "op", Op: "CALLDATACOPY", A: []string{off, "0x0", big}})
					case 3:
						p.M = append(p.M, Macro{K: "op", Op: "KECCAK256", A: []string{off, big}})
					case 4:
						p.M = append(p.M, Macro{K: "op", Op: "LOG0", A: []string{off, big}})
					case 5:
						p.M = append(p.M, Macro{K: "op", Op: "MCOPY", A: []string{off, "0x0", big}})
					default:
						p.M = append(p.M, Macro{K: "call", Op: pick(r, []string{"CALL", "STATICCALL"}), A: []string{"GAS", tgt, "0x0", off, big, off, "0x20"}})
					}
				case (profile == "journal" || profile == "mixed") && x < 6:
					if r.P(1, 3) {
						p.M = append(p.M, genJournalCoherent(r)...)
					} else {
						p.M = append(p.M, genJournalAdversarial(r)...)
					}
				case (profile == "artela" || profile == "mixed") && x < 6:
					p.M = append(p.M, genArtelaCall(r, sc.Fork)...)
				case x < 8 && i+1 < n:
					kind := pick(r, []string{"CALL", "DELEGATECALL", "STATICCALL", "CALLCODE"})
					p.M = append(p.M, Macro{K: "call", Op: kind, A: []string{"GAS", contractAddr(i + 1), "0x0", "0x0", hxu(uint64(r.Intn(64))), "0x0", "0x20"}})
				default:
					p.M = append(p.M, g.genMacro(r, 1)...)
				}
			}
			curProg = saved
			if r.P(1, 8) {
				// value transfer to an account whose balance is already the largest 256-bit number
				p.M = append(p.M, Macro{K: "call", Op: "CALL", A: []string{"GAS", fatAcct, hxu(uint64(1 + r.Intn(5))), "0x0", "0x0", "0x0", "0x0"}, Flag: "m:0x0"})
			}
			a.Code = p
		}
		sc.Accounts = append(sc.Accounts, a)
		if r.P(1, 6) {
			sc.Bindings = append(sc.Bindings, Binding{Contract: contractAddr(i), Point: pick(r, []string{"pre", "post", "both"}),
				Aspects: []AspectSpec{{ID: fmt.Sprintf("0xa5%02x%036x", i, 1), Kind: "noop"}}})
		}
	}
	var ex Exec
	ntx := 1 + r.Intn(2)
	for t := 0; t < ntx; t++ {
		tx := Tx{Kind: "call", From: eoaA, To: contractAddr(0), Gas: genGasLimit(r), Data: hx(r.Bytes(pick(r, []int{0, 4, 32, 68})))}
		switch r.Intn(10) {
		case 0:
			tx.Kind = pick(r, []string{"callcode", "delegatecall", "staticcall"})
		case 1:
			// entry points aimed straight at an Artela precompile
			tgt, p := artelaPayload(r)
			tx.To, tx.Data = tgt, hx(p)
			tx.Kind = pick(r, []string{"call", "callcode", "delegatecall", "staticcall"})
		case 2:
			tx.Kind = pick(r, []string{"create", "create2"})
			tx.To = ""
			tx.InitHex = hx(r.Bytes(1 + r.Intn(80)))
			if r.Bool() {
				tx.InitHex = ""
				tx.Init = &Program{M: genJournalAdversarial(r)}
			}
		}
		if t > 0 {
			tx.SameEVM = r.Bool()
			tx.JPOff = r.P(1, 4)
		}
		ex.Txs = append(ex.Txs, tx)
	}
	// follow-up trivial call on the same EVM: observes the call-depth counter
	ex.Txs = append(ex.Txs, Tx{Kind: "call", From: eoaA, To: trivialAddr, Gas: 100000, SameEVM: true})
	sc.Execs = []Exec{ex}
	// faults: at most three
	nf := pick(r, []int{0, 0, 1, 1, 2, 3})
	for k := 0; k < nf; k++ {
		txi := r.Intn(len(ex.Txs) - 1)
		switch r.Intn(5) {
		case 0:
			sc.Faults = append(sc.Faults, Fault{Kind: "gas", Tx: txi, N: uint64(r.Intn(int(ex.Txs[txi].Gas) + 1))})
		case 1, 2:
			sc.Faults = append(sc.Faults, Fault{Kind: "provider", Tx: txi, At: 1 + r.Intn(4), Arg: pick(r, f2Flavours)})
		case 3:
			sc.Faults = append(sc.Faults, Fault{Kind: "hostcb", Tx: txi, At: 1 + r.Intn(3), Arg: pick(r, []string{"err", "empty", "big"})})
		default:
			if r.P(1, 3) {
				sc.Faults = append(sc.Faults, Fault{Kind: "aspect", Tx: txi, At: 1 + r.Intn(3), Arg: pick(r, f3Flavours)})
			}
		}
	}
	return sc
}

// c03Run: crash monitor + bookkeeping + (for C20) per-instruction budgets.
func advRun(prop string) func(sc *Scenario, st *Stats) []Violation {
	return func(sc *Scenario, st *Stats) []Violation {
		t := advTreeRun(sc, prop == "C20")
		st.AbsorbLog(t.L)
		h, steps := shapeHash(t.L)
		st.Shape(h, steps >= 3)
		probeTree(t, st)
		for _, r := range t.Env.Results {
			if r.Budget {
				st.Probes["read-budget-tripped"]++
			}
		}
		return t.For(prop)
	}
}

// advTreeRun is treeRun with the C20 watchdog armed and the follow-up call inspected.
func advTreeRun(sc *Scenario, watchAlloc bool) *TreeOut {
	c20Arm = true
	c20Alloc = watchAlloc
	defer func() { c20Arm = false; c20Alloc = false }()
	t := treeRun(sc)
	// C03.bookkeeping: the follow-up call (last tx) must be announced as a top-level start at depth 1
	n := len(t.Env.Results)
	if n >= 2 {
		last := &t.Env.Results[n-1]
		tx := t.Sc.Execs[0].Txs[n-1]
		if tx.SameEVM && tx.To == trivialAddr && last.Panic == "" && !last.Budget {
			sawStart, firstDepth := false, -1
			for k := last.EvFrom; k < last.EvTo; k++ {
				e := &t.L.Evs[k]
				if e.K == evStart {
					sawStart = true
				}
				if e.K == evEnter && !sawStart {
					t.add("C03", "C03.bookkeeping", "depth-not-restored", e.Seq, "a follow-up top-level call on the same EVM was announced as a nested frame: call depth was not back at rest")
					break
				}
				if e.K == evStep && firstDepth < 0 {
					firstDepth = e.Depth
				}
			}
			if firstDepth > 1 {
				t.add("C03", "C03.bookkeeping", "depth-not-restored", last.EvFrom, "first instruction of a follow-up top-level call ran at depth %d", firstDepth)
			}
		}
	}
	for i, r := range t.Env.Results {
		if r.Budget {
			t.add("C20", "C20.reads", r.PanicSite, r.EvTo, "tx %d: one instruction exceeded its state-read budget (aborted by the watchdog inside %s)", i, r.PanicSite)
		}
	}
	t.V = append(t.V, c20Violations...)
	c20Violations = nil
	return t
}

var (
	c20Arm        bool
	c20Alloc      bool
	c20Violations []Violation
)

func readBudget(cost uint64) int {
	b := 32 + cost/10
	if b > 1<<20 {
		b = 1 << 20
	}
	return int(b)
}

func allocBudget(cost uint64, memLen int) uint64 {
	return 1<<20 + 64*cost + 2*uint64(memLen)
}

func memTotalAlloc() uint64 {
	var m runtime.MemStats
	runtime.ReadMemStats(&m)
	return m.TotalAlloc
}

func isJournalOp(op byte) bool { return op >= 0xe0 && op <= 0xe7 }

func siteOfOp(op byte) string {
	for name, info := range opTable {
		if info.b == op && !strings.HasPrefix(name, "T") {
			return name
		}
	}
	return fmt.Sprintf("op%02x", op)
}

func init() {
	real := []string{"/repo/vm (all of it, incl. journal opcodes and Artela precompiles)", "aspect-core + aspect-runtime + wasmtime", "go-ethereum StateDB"}
	stub := []string{"AspectProvider", "host callbacks (context store; can fail)", "debug tracer = recorder"}
	register(&Check{ID: "C03", Level: "exploration",
		Rule:   "profiles raw (random bytes biased to journal opcodes, as code / init code / calldata), journal (adversarial pointers, offsets, widths, length words, string encodings), artela (payload templates and head-word mutations to 0x64-0x66 through all four call kinds and as entry-point targets), mixed; 0-3 injected faults (gas limit, provider error, host-callback error/empty/large, WASM trap/revert/loop), join-point switch toggled; follow-up call on the same EVM; distinct = hash of event-kind sequence; non-trivial = >= 3 instructions",
		Assume: []string{"host initialised as the property requires", "a run that kills its worker process is confirmed by the driver from the worker's last announced seed"},
		Real:   real, Stub: stub, Gen: genC03, Run: advRun("C03")})
	register(&Check{ID: "C20", Level: "exploration",
		Rule:   "same adversarial profiles, biased to long-string encodings and huge length words; invariant per executed instruction: StateDB reads <= 32 + cost/10 (enforced while the instruction runs) and bytes allocated <= 1 MiB + 64*cost + 2*memory size (journal, copy and call windows; journal windows may add twice what the journal instructions of the transaction allocated so far: a doubling map or slice); a copy / hash / log instruction (0x20, 0x37, 0x39, 0x3c, 0x3e, 0x5e, 0xa0-0xa4) that did not expand memory: bytes allocated <= 64 KiB + 64*cost, no memory term; one scenario in 40 is a copy loop on 96-256 KiB of memory paid for once; amortised per transaction for the flat-fee journal instructions 0xe0-0xe6: allocation beyond twice the memory size <= 1 MiB + 16 bytes per gas they paid; plus a loop profile of 2500-5500 journal instructions in one frame; distinct = hash of event-kind sequence",
		Assume: []string{"work that crosses no seam (hashing inside a precompile, CPU time) is not measured"},
		Real:   real, Stub: stub, Gen: func(seed uint64, tier string) *Scenario {
			if seed%160 == 7 {
				return genJournalLoop(seed)
			}
			if seed%40 == 11 {
				return genCopyLoop(seed)
			}
			sc := genC03(seed, tier)
			sc.Prop = "C20"
			return sc
		}, Run: c20Run})
}
