package main

// C16: equal executions produce byte-identical results and tracer views. Each
// scenario is executed R times in fresh EVMs on equal pre-states, alone and
// interleaved at seam-event granularity with an unrelated journaling executor; every
// query on the call tree and the journal is repeated Q times; the canonical
// serialisation (results in returned order) must be identical throughout, and equal
// between worker processes. Go's map iteration order cannot be seeded; the workload
// is shaped (8 children per key = one runtime map bucket) so that an order-dependent
// answer differs between two evaluations with probability 7/8.

import (
	"crypto/sha256"
	"fmt"
	"sort"
	"strings"

	avm "github.com/artela-network/artela-evm/vm"
	"github.com/ethereum/go-ethereum/common"
	"github.com/holiman/uint256"
)

var c16Names = []string{"v0", "v1", "v2", "v3", "shared", "made", "m", "str", "lstr"}

func canonCall(sb *strings.Builder, ct *avm.CallTree) {
	for i := uint64(0); ; i++ {
		c := ct.FindCall(i)
		if c == nil {
			break
		}
		to := "nil"
		if c.To != nil {
			to = fmt.Sprintf("%x", *c.To)
		}
		fmt.Fprintf(sb, "call %d from=%x to=%s data=%x value=%v gas=%v parent=%d ret=%x left=%d err=%q kids=", c.Index, c.From, to, c.Data, c.Value, c.Gas, c.ParentIndex(), c.Ret, c.RemainingGas, errStr(c.Err))
		for _, k := range ct.ChildrenOf(i) {
			fmt.Fprintf(sb, "%d,", k.Index)
		}
		fmt.Fprintf(sb, " idx=%v\n", c.ChildrenIndices())
	}
}

func canonChanges(sb *strings.Builder, ch *avm.StorageChanges) {
	if ch == nil {
		sb.WriteString("<nil>")
		return
	}
	m := ch.Changes()
	var ks []uint64
	for k := range m {
		ks = append(ks, k)
	}
	sort.Slice(ks, func(i, j int) bool { return ks[i] < ks[j] })
	for _, k := range ks {
		fmt.Fprintf(sb, "[%d:", k)
		for _, v := range m[k] {
			fmt.Fprintf(sb, "%x,", v)
		}
		sb.WriteString("]")
	}
}

// canonJournal serialises every query result in the order the API returned it.
func canonJournal(sb *strings.Builder, sc *Scenario, tr *avm.Tracer) {
	s := tr.StateChanges()
	for _, ac := range sc.Accounts {
		a := addr(ac.Addr)
		fmt.Fprintf(sb, "acct %x balance=", a)
		canonChanges(sb, s.Balance(a))
		sb.WriteString("\n")
		for _, name := range c16Names {
			key := s.FindKeyIndices(a, name)
			if key == nil {
				continue
			}
			fmt.Fprintf(sb, " var %s slot=%v off=%d type=%d changes=", name, key.Slot(), key.Offset(), key.NodeType())
			canonChanges(sb, s.Variable(a, name))
			sb.WriteString(" children=")
			for _, c := range key.Children() {
				fmt.Fprintf(sb, "(%v,%d)", c.Slot(), c.Offset())
			}
			sb.WriteString(" childIdx=")
			idx := key.ChildrenIndices()
			for _, b := range idx {
				fmt.Fprintf(sb, "%x,", b)
			}
			sb.WriteString(" indicesOfChanges=")
			for _, b := range s.IndicesOfChanges(a, name) {
				fmt.Fprintf(sb, "%x,", b)
			}
			sb.WriteString("\n")
			// members, visited in a canonical order of their own
			sorted := append([][]byte{}, idx...)
			sort.Slice(sorted, func(i, j int) bool { return string(sorted[i]) < string(sorted[j]) })
			for _, b := range sorted {
				fmt.Fprintf(sb, "  member %x changes=", b)
				canonChanges(sb, s.Variable(a, name, b))
				if k2 := s.FindKeyIndices(a, name, b); k2 != nil {
					slot := k2.Slot()
					by, _ := s.Slot(a, slot, uint256.NewInt(uint64(k2.Offset())), common.BytesToHash(unhex(typeID("uint256"))))
					sb.WriteString(" byslot=")
					canonChanges(sb, by)
				}
				sb.WriteString("\n")
			}
		}
	}
}

func canonEnv(sc *Scenario, e *SutEnv, queries int) (string, bool) {
	var first string
	stable := true
	for q := 0; q < queries; q++ {
		var sb strings.Builder
		for i := range e.Results {
			r := &e.Results[i]
			fmt.Fprintf(&sb, "tx %d %s\n", i, r.String())
			for _, l := range r.Logs {
				fmt.Fprintf(&sb, " log %x %x %x\n", l.Addr, l.Topics, l.Data)
			}
		}
		for _, ev := range uniqEVMs(e.EVMs) {
			sb.WriteString("evm\n")
			canonCall(&sb, ev.Tracer().CallTree())
			canonJournal(&sb, sc, ev.Tracer())
		}
		s := sb.String()
		if q == 0 {
			first = s
		} else if s != first {
			stable = false
			return firstDiff(first, s), stable
		}
	}
	return first, stable
}

func firstDiff(a, b string) string {
	la, lb := strings.Split(a, "\n"), strings.Split(b, "\n")
	for i := 0; i < len(la) && i < len(lb); i++ {
		if la[i] != lb[i] {
			return fmt.Sprintf("line %d:\n   %s\nvs %s", i, la[i], lb[i])
		}
	}
	return fmt.Sprintf("lengths differ: %d vs %d lines", len(la), len(lb))
}

func soloRun(sc *Scenario, ex int) *SutEnv {
	l := NewLog()
	e := NewSutEnv(sc, ex, l, true)
	e.RunAll()
	drainSwallowed()
	return e
}

func c16Run(sc *Scenario, st *Stats) []Violation {
	var vs []Violation
	add := func(rule, sig, format string, a ...interface{}) {
		vs = append(vs, Violation{Prop: "C16", Rule: rule, Sig: sig, Msg: fmt.Sprintf(format, a...)})
	}
	R := sc.P("reps", 3)
	Q := sc.P("queries", 8)
	solo := make([]string, len(sc.Execs))
	for ex := range sc.Execs {
		for rep := 0; rep < R; rep++ {
			e := soloRun(sc, ex)
			st.Steps += e.L.Len()
			if rep == 0 && ex == 0 {
				h, steps := shapeHash(e.L)
				st.Shape(h, steps >= 10)
			}
			s, stable := canonEnv(sc, e, Q)
			if !stable {
				add("C16.query", "repeated-query-differs", "the same query on the same finished execution gave two different answers (executor %d, run %d): %s", ex, rep, s)
				return vs
			}
			if rep == 0 {
				solo[ex] = s
			} else if s != solo[ex] {
				add("C16.repeat", "rerun-differs", "re-running the same transaction on an equal pre-state in a fresh EVM gave a different canonical result (executor %d): %s", ex, firstDiff(solo[ex], s))
				return vs
			}
			st.Extra["solo-executions"]++
		}
	}
	// interleaved with the unrelated executor(s): every executor equals its solo run
	if len(sc.Execs) > 1 {
		l, suts, sched := runSuts(sc, sutOpts{tracer: true})
		drainSwallowed()
		st.Steps += l.Len()
		st.Inter[sched.InterleavingHash()]++
		if sched.Switches > 0 {
			st.Probes["executors-interleaved"]++
		}
		st.Faults["F9.schedule-perturbation"] += sched.Switches
		for ex, e := range suts {
			s, stable := canonEnv(sc, e, 2)
			if !stable {
				add("C16.query", "repeated-query-differs", "repeated query differs after interleaved run: %s", s)
				return vs
			}
			if s != solo[ex] {
				add("C16.isolation", "interleaved-differs", "executor %d interleaved with an unrelated executor (%d context switches) differs from its solo run: %s", ex, sched.Switches, firstDiff(solo[ex], s))
				return vs
			}
		}
	}
	return vs
}

func genC16(seed uint64, tier string) *Scenario {
	sc := genTreeScenario(seed, treeOpts{prop: "C16", bindProb: 10, aspectKind: "noop", journal: true, wide: true, multiTx: true})
	r := NewRNG(seed ^ 0xc16)
	if r.P(2, 3) {
		o := genTreeScenario(mix64(seed+7), treeOpts{prop: "C16", bindProb: 0, journal: true, wide: true})
		// the unrelated executor runs against the same world definition (its own StateDB)
		for i := range o.Execs[0].Txs {
			o.Execs[0].Txs[i].To = contractAddr(r.Intn(2))
		}
		sc.Execs = append(sc.Execs, o.Execs[0])
		sc.Sched = Sched{SwitchPPM: pick(r, []int{20, 100, 300}), Seed: r.U64()}
	}
	sc.Params = map[string]int{"reps": 3, "queries": 8}
	if tier == "thorough" {
		sc.Params["queries"] = 24
	}
	return sc
}

func c16Shared(base uint64) string {
	h := sha256.New()
	for j := uint64(0); j < 3; j++ {
		sc := genC16(seedFor(base, "C16-shared", j), "quick")
		e := soloRun(sc, 0)
		s, _ := canonEnv(sc, e, 1)
		h.Write([]byte(s))
	}
	return fmt.Sprintf("%x", h.Sum(nil))
}

func init() {
	register(&Check{ID: "C16", Level: "exploration",
		Rule:   "journal-heavy call trees (mappings with exactly 8 members, variables journaled from several frames) executed 3 times in fresh EVMs, each finished execution queried 8 (quick) / 24 (thorough) times, then interleaved at seam-event granularity with an unrelated journaling executor; canonical serialisation = results, logs, call tree, every journal query in returned order; three fixed scenarios are additionally digested by every worker process and compared by the driver; distinct = hash of event-kind sequence",
		Assume: []string{"Go map iteration order is amplified (8-member buckets), not controlled: an order-dependent answer escapes one pair of evaluations with probability 1/8, all 23 pairs of a thorough run with 8^-23"},
		Real:   []string{"/repo/vm EVM, journal opcodes, state-change tracer, call tree"}, Stub: []string{"scheduler (seeded baton)", "AspectProvider"},
		Gen:    genC16, Run: c16Run, Shared: c16Shared})
}
