package main

// Seeded cooperative scheduler. Executors are goroutines but exactly one holds the
// baton; a goroutine may only lose it at a yield point (every seam event), and who runs
// next is decided here, from the run's PRNG or from a recorded choice list.

import (
	"fmt"
	"hash/fnv"
	"sync"
)

type task struct {
	id   int
	name string
	wake chan struct{}
	done bool
	body func()
	// panicked value, if the task body panicked outside any recover of its own
	pan interface{}
}

type injection struct {
	at   int // global yield index
	ex   int // only when executor ex is current (or -1)
	body func()
	name string
}

type Scheduler struct {
	mu       sync.Mutex
	tasks    []*task
	cur      int
	rng      *RNG
	ppm      int
	replay   bool
	choices  []int // pairs (yield index, target task)
	ci       int
	Recorded []int
	yieldN   int
	exYield  map[int]int // per-executor yield counters
	inj      []injection
	allDone  chan struct{}
	swHash   uint64
	Switches int
	log      *Log
	maxYield int
	Aborted  bool
}

func NewScheduler(s Sched, log *Log) *Scheduler {
	sc := &Scheduler{rng: NewRNG(s.Seed), ppm: s.SwitchPPM, allDone: make(chan struct{}), log: log, exYield: map[int]int{}}
	if s.Choices != nil {
		sc.replay = true
		sc.choices = s.Choices
	}
	h := fnv.New64a()
	sc.swHash = h.Sum64()
	return sc
}

func (s *Scheduler) Spawn(name string, body func()) int {
	t := &task{id: len(s.tasks), name: name, wake: make(chan struct{}, 1), body: body}
	s.tasks = append(s.tasks, t)
	go func() {
		<-t.wake
		func() {
			defer func() {
				if r := recover(); r != nil {
					t.pan = r
				}
			}()
			t.body()
		}()
		s.finish(t)
	}()
	return t.id
}

// InjectAt arranges for body to run as its own task the moment executor ex passes its
// k-th yield.
func (s *Scheduler) InjectAt(ex, k int, name string, body func()) {
	s.inj = append(s.inj, injection{at: k, ex: ex, body: body, name: name})
}

func (s *Scheduler) runnable(except int) []int {
	var r []int
	for _, t := range s.tasks {
		if !t.done && t.id != except {
			r = append(r, t.id)
		}
	}
	return r
}

func (s *Scheduler) noteSwitch(from, to int, k evKind) {
	s.Switches++
	s.swHash = mix64(s.swHash ^ uint64(from)<<16 ^ uint64(to)<<8 ^ uint64(k))
}

// Run starts task 0 and returns when every task has finished.
func (s *Scheduler) Run() {
	if len(s.tasks) == 0 {
		return
	}
	s.cur = 0
	s.tasks[0].wake <- struct{}{}
	<-s.allDone
	for _, t := range s.tasks {
		if t.pan != nil {
			if he, ok := t.pan.(harnessErr); ok {
				panic(he)
			}
			panic(harnessErr(fmt.Sprintf("task %s panicked: %v", t.name, t.pan)))
		}
	}
}

func (s *Scheduler) finish(t *task) {
	t.done = true
	r := s.runnable(-1)
	if len(r) == 0 {
		close(s.allDone)
		return
	}
	next := r[0]
	if len(r) > 1 && !s.replay {
		next = r[s.rng.Intn(len(r))]
	}
	if s.replay && s.ci+1 < len(s.choices) && s.choices[s.ci] == -1 {
		// recorded choice at a task end
		cand := s.choices[s.ci+1]
		s.ci += 2
		for _, id := range r {
			if id == cand {
				next = cand
			}
		}
	} else if !s.replay {
		s.Recorded = append(s.Recorded, -1, next)
	}
	s.noteSwitch(t.id, next, 0)
	s.cur = next
	s.tasks[next].wake <- struct{}{}
}

func (s *Scheduler) switchTo(next int, k evKind) {
	me := s.tasks[s.cur]
	s.noteSwitch(me.id, next, k)
	s.cur = next
	s.tasks[next].wake <- struct{}{}
	<-me.wake
}

// Yield is called at every seam event by the goroutine holding the baton.
func (s *Scheduler) Yield(ex int, k evKind) {
	if k == evSwitch || k == evInject {
		return
	}
	s.yieldN++
	n := s.exYield[ex] + 1
	s.exYield[ex] = n
	// injected events (Cancel) fire first
	for i := 0; i < len(s.inj); i++ {
		in := s.inj[i]
		if in.ex == ex && in.at == n {
			s.inj = append(s.inj[:i], s.inj[i+1:]...)
			i--
			id := s.Spawn(in.name, in.body)
			s.switchTo(id, k)
		}
	}
	if len(s.tasks) < 2 {
		return
	}
	if s.replay {
		if s.ci+1 < len(s.choices) && s.choices[s.ci] == s.yieldN {
			target := s.choices[s.ci+1]
			s.ci += 2
			if target >= 0 && target < len(s.tasks) && !s.tasks[target].done && target != s.cur {
				s.switchTo(target, k)
			}
		}
		return
	}
	if s.ppm <= 0 {
		return
	}
	if s.rng.Intn(1000) < s.ppm {
		r := s.runnable(s.cur)
		if len(r) == 0 {
			return
		}
		target := r[s.rng.Intn(len(r))]
		s.Recorded = append(s.Recorded, s.yieldN, target)
		s.switchTo(target, k)
	}
}

func (s *Scheduler) InterleavingHash() uint64 { return s.swHash }
