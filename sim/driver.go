package main

// Driver: `check <id> <tier>` spawns worker processes over disjoint run ranges,
// merges their counters, confirms + minimises violations, applies the known-findings
// file, writes the replay file and the evidence file, and sets the exit code:
// 0 = held, 1 = VIOLATION, 2 = harness/build trouble.

import (
	"context"
	"encoding/json"
	"fmt"
	"os"
	"os/exec"
	"path/filepath"
	"runtime"
	"sort"
	"strconv"
	"strings"
	"sync"
	"syscall"
	"time"
)

type Stats struct {
	Evals    int            `json:"evals"`
	Steps    int            `json:"steps"` // simulated time: seam events
	Faults   map[string]int `json:"faults"`
	Probes   map[string]int `json:"probes"`
	Shapes   map[uint64]int `json:"-"`
	ShapeL   []uint64       `json:"shapes"`
	Inter    map[uint64]int `json:"-"`
	InterL   []uint64       `json:"interleavings"`
	Samples  []interface{}  `json:"samples"`
	Trivial  int            `json:"trivial"`
	Extra    map[string]int `json:"extra"`
}

func NewStats() *Stats {
	return &Stats{Faults: map[string]int{}, Probes: map[string]int{}, Shapes: map[uint64]int{}, Inter: map[uint64]int{}, Extra: map[string]int{}}
}

func (s *Stats) AbsorbLog(l *Log) {
	s.Steps += l.Len()
	for k, v := range l.Faults {
		s.Faults[k] += v
	}
	for k, v := range l.Probes {
		s.Probes[k] += v
	}
}

func (s *Stats) Shape(h uint64, nontrivial bool) {
	if nontrivial {
		s.Shapes[h]++
	} else {
		s.Trivial++
	}
}

func (s *Stats) merge(o *Stats) {
	s.Evals += o.Evals
	s.Steps += o.Steps
	s.Trivial += o.Trivial
	for k, v := range o.Faults {
		s.Faults[k] += v
	}
	for k, v := range o.Probes {
		s.Probes[k] += v
	}
	for k, v := range o.Extra {
		s.Extra[k] += v
	}
	for _, h := range o.ShapeL {
		s.Shapes[h]++
	}
	for _, h := range o.InterL {
		s.Inter[h]++
	}
	if len(s.Samples) < 3 {
		s.Samples = append(s.Samples, o.Samples...)
		if len(s.Samples) > 3 {
			s.Samples = s.Samples[:3]
		}
	}
}

type Found struct {
	V        Violation `json:"violation"`
	Scenario *Scenario `json:"scenario"`
	RunIdx   uint64    `json:"run"`
	From     uint64    `json:"from"` // first run index of the worker process that found it
}

type WorkerOut struct {
	Stats  *Stats  `json:"stats"`
	Found  []Found `json:"found"`
	Done   bool    `json:"done"`
	Digest string  `json:"digest"` // canonical digest of the check's shared scenarios (C16 cross-process)
	// RunDigest folds step counts, shapes, interleavings and violations of every run
	RunDigest string `json:"run_digest"`
}

// Check is one property's machinery.
type Check struct {
	ID       string
	Level    string
	Rule     string
	Assume   []string
	Real     []string
	Stub     []string
	Gen      func(seed uint64, tier string) *Scenario
	Run      func(sc *Scenario, st *Stats) []Violation
	Runs     map[string]int // per tier
	NA       bool
	RaceTier bool
	// Shared: canonical digest of a few fixed scenarios, computed by every worker and
	// compared by the driver across processes (C16)
	Shared func(base uint64) string
}

var checks = map[string]*Check{}

func register(c *Check) { checks[c.ID] = c }

type KnownFinding struct {
	Property  string `json:"property"`
	Rule      string `json:"rule"`
	Signature string `json:"signature"`
	What      string `json:"what"`
	Status    string `json:"status"` // "open" suppresses; "fixed" suppresses nothing
	Commit    string `json:"commit,omitempty"`
}

func loadKnown() []KnownFinding {
	b, err := os.ReadFile(filepath.Join(verifRoot(), "known_findings.json"))
	if err != nil {
		return nil
	}
	var k struct {
		Findings []KnownFinding `json:"findings"`
	}
	if err := json.Unmarshal(b, &k); err != nil {
		fmt.Fprintln(os.Stderr, "known_findings.json unreadable:", err)
		os.Exit(2)
	}
	return k.Findings
}

func verifRoot() string {
	if r := os.Getenv("VERIF_ROOT"); r != "" {
		return r
	}
	return "/verif"
}

func baseSeed(tier string) uint64 {
	if s := os.Getenv("VERIF_SEED"); s != "" {
		v, err := strconv.ParseUint(s, 10, 64)
		if err == nil {
			return v
		}
		iv, err := strconv.ParseInt(s, 10, 64)
		if err == nil {
			return uint64(iv)
		}
	}
	if tier == "thorough" {
		return 20260922
	}
	return 1
}

// runOne executes one scenario under the check's oracle, turning harness trouble into
// a harnessErr panic and everything else into violations.
func runOne(c *Check, sc *Scenario, st *Stats) (vs []Violation) {
	return c.Run(sc, st)
}

func workerMain(args []string) {
	// worker <prop> <tier> <base> <from> <to> <out>
	c := checks[args[0]]
	tier := args[1]
	base, _ := strconv.ParseUint(args[2], 10, 64)
	from, _ := strconv.ParseUint(args[3], 10, 64)
	to, _ := strconv.ParseUint(args[4], 10, 64)
	out := args[5]
	deadline := time.Now().Add(time.Duration(envInt("VERIF_WORKER_SECONDS", 3600)) * time.Second)
	// address-space cap: a run that makes the VM allocate without bound must kill this worker
	// (fatal error: out of memory), not the machine; the driver reports the seed it died on
	if gb := envInt("VERIF_WORKER_AS_GB", 10); gb > 0 {
		lim := syscall.Rlimit{Cur: uint64(gb) << 30, Max: uint64(gb) << 30}
		syscall.Setrlimit(syscall.RLIMIT_AS, &lim)
	}
	st := NewStats()
	wo := WorkerOut{Stats: st}
	if c.Shared != nil {
		wo.Digest = c.Shared(base)
	}
	seen := map[string]bool{}
	status := out + ".cur"
	runDig, shapeXor := uint64(0), uint64(0)
	for i := from; i < to; i++ {
		if time.Now().After(deadline) {
			break
		}
		seed := seedFor(base, c.ID, i)
		os.WriteFile(status, []byte(fmt.Sprintf("%d %d", i, seed)), 0o644)
		sc := c.Gen(seed, tier)
		vs := runOne(c, sc, st)
		st.Evals++
		if len(st.Samples) < 1 {
			st.Samples = append(st.Samples, sampleOf(sc))
		}
		for _, v := range vs {
			key := v.Rule + "|" + v.Sig
			if seen[key] {
				continue
			}
			seen[key] = true
			fsc := sc
			if v.Sc != nil {
				fsc = v.Sc
			}
			wo.Found = append(wo.Found, Found{V: v, Scenario: fsc, RunIdx: i, From: from})
		}
		// determinism self-test: everything a run contributes is folded into one number
		runDig = mix64(runDig ^ uint64(st.Steps) ^ uint64(st.Trivial)<<20 ^ uint64(len(st.Shapes))<<40 ^ uint64(len(vs))<<60)
		for _, v := range vs {
			runDig = mix64(runDig ^ h64([]byte(v.Rule+"|"+v.Sig)))
		}
	}
	for h := range st.Shapes {
		shapeXor ^= mix64(h)
	}
	for h := range st.Inter {
		shapeXor ^= mix64(h + 1)
	}
	wo.RunDigest = fmt.Sprintf("%016x%016x", runDig, shapeXor)
	wo.Done = true
	for h := range st.Shapes {
		st.ShapeL = append(st.ShapeL, h)
	}
	sort.Slice(st.ShapeL, func(i, j int) bool { return st.ShapeL[i] < st.ShapeL[j] })
	for h := range st.Inter {
		st.InterL = append(st.InterL, h)
	}
	sort.Slice(st.InterL, func(i, j int) bool { return st.InterL[i] < st.InterL[j] })
	b, _ := json.Marshal(&wo)
	if err := os.WriteFile(out, b, 0o644); err != nil {
		fmt.Fprintln(os.Stderr, "worker: cannot write output:", err)
		os.Exit(2)
	}
	os.Remove(status)
}

func sampleOf(sc *Scenario) interface{} {
	b, _ := json.Marshal(sc)
	if len(b) > 6000 {
		// keep samples readable: drop account code bodies beyond the first contract
		c := sc.Clone()
		for i := range c.Accounts {
			if i > 3 {
				c.Accounts[i].Code = nil
				c.Accounts[i].RawCode = "(elided)"
			}
		}
		b, _ = json.Marshal(c)
		if len(b) > 20000 {
			return map[string]interface{}{"property": sc.Prop, "seed": sc.Seed, "fork": sc.Fork, "note": "scenario elided (large)", "txs": len(sc.Execs)}
		}
	}
	var v interface{}
	json.Unmarshal(b, &v)
	return v
}

func envInt(name string, def int) int {
	if s := os.Getenv(name); s != "" {
		if v, err := strconv.Atoi(s); err == nil {
			return v
		}
	}
	return def
}

type evidence struct {
	PropertyID  string                 `json:"property_id"`
	Tier        string                 `json:"tier"`
	Seed        int64                  `json:"seed"`
	Level       string                 `json:"level"`
	Coverage    map[string]interface{} `json:"coverage"`
	Assumptions []string               `json:"assumptions"`
	WallS       float64                `json:"wall_s"`
	Violations  int                    `json:"violations"`
}

func checkMain(id, tier string) int {
	c, ok := checks[id]
	if !ok {
		fmt.Fprintln(os.Stderr, "unknown property", id)
		return 2
	}
	start := time.Now()
	base := baseSeed(tier)
	total := runsFor(c, tier)
	if v := envInt("VERIF_RUNS", 0); v > 0 {
		total = v
	}
	if tier == "thorough" && os.Getenv("VERIF_NOSELFTEST") == "" {
		// determinism self-test first: a harness that does not replay is not believed
		if ok, msg := selftestRange(id, "quick", base, 0, 120); !ok {
			fmt.Fprintln(os.Stderr, "harness: determinism self-test failed:", msg)
			return 2
		}
	}
	W := envInt("VERIF_WORKERS", runtime.NumCPU())
	if W > total {
		W = total
	}
	if W < 1 {
		W = 1
	}
	tmp, err := os.MkdirTemp(filepath.Join(verifRoot(), "bin"), "run-"+id+"-")
	if err != nil {
		fmt.Fprintln(os.Stderr, "mkdtemp:", err)
		return 2
	}
	defer os.RemoveAll(tmp)
	self, _ := os.Executable()
	type wres struct {
		out  WorkerOut
		err  error
		dead string // "<runidx> <seed>" if the process died
		log  string
	}
	results := make([]wres, W)
	var wg sync.WaitGroup
	// interleave run indices in chunks so that a dead worker loses little
	per := (total + W - 1) / W
	for w := 0; w < W; w++ {
		wg.Add(1)
		go func(w int) {
			defer wg.Done()
			from := w * per
			to := from + per
			if to > total {
				to = total
			}
			if from >= to {
				results[w].out.Done = true
				results[w].out.Stats = NewStats()
				return
			}
			out := filepath.Join(tmp, fmt.Sprintf("w%d.json", w))
			cmd := exec.Command(self, "worker", id, tier, strconv.FormatUint(base, 10), strconv.Itoa(from), strconv.Itoa(to), out)
			cmd.Env = append(os.Environ(), "GOMAXPROCS="+strconv.Itoa(envInt("VERIF_WPROCS", 2)))
			if os.Getenv("GOGC") == "" {
				// allocation-heavy short runs: fewer collections scale better across worker processes
				cmd.Env = append(cmd.Env, "GOGC=400")
			}
			ob, err := cmd.CombinedOutput()
			results[w].log = string(ob)
			b, rerr := os.ReadFile(out)
			if rerr == nil {
				if jerr := json.Unmarshal(b, &results[w].out); jerr != nil {
					results[w].err = jerr
				}
			} else {
				results[w].err = err
				if cur, e2 := os.ReadFile(out + ".cur"); e2 == nil {
					results[w].dead = string(cur)
				}
				if results[w].err == nil {
					results[w].err = rerr
				}
			}
		}(w)
	}
	wg.Wait()

	st := NewStats()
	var found []Found
	sharedDigest, sharedMismatch := "", false
	for w := range results {
		r := &results[w]
		if r.err != nil {
			if r.dead != "" {
				// a run killed its worker: that is a finding for C03/C20 (fatal error, hang),
				// confirmed by re-running that seed alone
				parts := strings.Fields(r.dead)
				idx, _ := strconv.ParseUint(parts[0], 10, 64)
				seed, _ := strconv.ParseUint(parts[1], 10, 64)
				sc := c.Gen(seed, tier)
				found = append(found, Found{V: Violation{Prop: id, Rule: id + ".fatal", Sig: "worker-death", Msg: "worker process died on this run: " + tail(r.log, 600)}, Scenario: sc, RunIdx: idx})
				continue
			}
			fmt.Fprintf(os.Stderr, "worker %d failed: %v\n%s\n", w, r.err, tail(r.log, 2000))
			return 2
		}
		if strings.Contains(r.log, "harness:") {
			fmt.Fprintf(os.Stderr, "worker %d reported harness trouble:\n%s\n", w, tail(r.log, 2000))
			return 2
		}
		st.merge(r.out.Stats)
		if c.Shared != nil {
			if sharedDigest == "" {
				sharedDigest = r.out.Digest
			} else if r.out.Digest != "" && r.out.Digest != sharedDigest && !sharedMismatch {
				sharedMismatch = true
				found = append(found, Found{V: Violation{Prop: id, Rule: id + ".crossprocess", Sig: "digest-differs-between-workers",
					Msg: fmt.Sprintf("the same shared scenarios produced different canonical digests in two worker processes (%s vs %s)", sharedDigest[:16], r.out.Digest[:16])},
					Scenario: c.Gen(seedFor(base, id+"-shared", 0), tier), RunIdx: 0})
			}
		}
		found = append(found, r.out.Found...)
	}
	if c.RaceTier && os.Getenv("VERIF_NORACE") == "" {
		found = append(found, raceTier(c, tier, base, st)...)
	}
	known := loadKnown()
	sort.Slice(found, func(i, j int) bool { return found[i].RunIdx < found[j].RunIdx })
	reported := map[string]bool{}
	nviol := 0
	knownHit := map[string]bool{}
	for _, f := range found {
		key := f.V.Rule + "|" + f.V.Sig
		if reported[key] {
			continue
		}
		reported[key] = true
		if kf := matchKnown(known, id, f.V); kf != nil {
			if !knownHit[kf.Rule+"|"+kf.Signature] {
				knownHit[kf.Rule+"|"+kf.Signature] = true
				fmt.Printf("KNOWN-FINDING: property=%s rule=%s signature=%s %s\n", id, kf.Rule, kf.Signature, kf.What)
			}
			continue
		}
		nviol++
		if nviol > 5 {
			continue
		}
		path := reportViolation(c, f, base, tier)
		fmt.Printf("VIOLATION property=%s replay=%s\n", id, path)
		fmt.Printf("  rule=%s signature=%s run=%d seed=%d\n  %s\n", f.V.Rule, f.V.Sig, f.RunIdx, f.Scenario.Seed, f.V.Msg)
	}
	wall := time.Since(start).Seconds()
	writeEvidence(c, tier, base, st, wall, nviol, W)
	for k, v := range st.Probes {
		_ = v
		_ = k
	}
	fmt.Printf("%s %s: runs=%d steps=%d distinct=%d wall=%.1fs violations=%d\n", id, tier, st.Evals, st.Steps, len(st.Shapes), wall, nviol)
	if nviol > 0 {
		return 1
	}
	return 0
}

func firstLine(s string) string {
	for _, l := range strings.Split(s, "\n") {
		if strings.Contains(l, "fatal error") || strings.Contains(l, "signal") {
			return l
		}
	}
	if i := strings.Index(s, "\n"); i > 0 {
		return s[:i]
	}
	return s
}

func tail(s string, n int) string {
	if len(s) > n {
		return s[len(s)-n:]
	}
	return s
}

func matchKnown(known []KnownFinding, id string, v Violation) *KnownFinding {
	for i := range known {
		k := &known[i]
		if k.Status != "open" || k.Property != id || k.Rule != v.Rule {
			continue
		}
		if k.Signature == v.Sig {
			return k
		}
	}
	return nil
}

type Replay struct {
	Property string    `json:"property"`
	Rule     string    `json:"rule"`
	Sig      string    `json:"signature"`
	Seed     uint64    `json:"seed"`
	Message  string    `json:"message"`
	Scenario *Scenario `json:"scenario"`
	// Prelude: the violation depends on state that earlier runs left in the worker process
	// (package-level caches, shared instances): the replay first re-executes runs
	// From..To (inclusive) of that worker - a pure function of (base, property, index).
	Prelude *Prelude `json:"prelude,omitempty"`
}

type Prelude struct {
	Base uint64 `json:"base"`
	Tier string `json:"tier"`
	From uint64 `json:"from"`
	To   uint64 `json:"to"`
}

func reportViolation(c *Check, f Found, base uint64, tier string) string {
	sc := f.Scenario
	v := f.V
	if v.Sig != "worker-death" {
		// confirm, then minimise in a child process (a crash while minimising must not kill the driver)
		sc, v = minimiseInChild(c, sc, v)
	}
	rp := Replay{Property: c.ID, Rule: v.Rule, Sig: v.Sig, Seed: f.Scenario.Seed, Message: v.Msg, Scenario: sc}
	dir := filepath.Join(verifRoot(), "replays")
	os.MkdirAll(dir, 0o755)
	path := filepath.Join(dir, fmt.Sprintf("%s-%d-%08x.json", c.ID, f.Scenario.Seed, uint32(h64([]byte(v.Rule+"|"+v.Sig)))))
	b, _ := json.MarshalIndent(&rp, "", " ")
	os.WriteFile(path, b, 0o644)
	if v.Sig != "worker-death" && !strings.HasPrefix(v.Rule, "C17.race") && !replayReproduces(path) {
		// The minimiser evaluates its candidates in one process. A violation that depends on
		// state an earlier candidate left in that process (package-level caches, shared
		// precompile instances) survives the removal of the very operations that created the
		// state; such a result does not replay in a fresh process. Keep the scenario as found.
		rp.Scenario = f.Scenario
		rp.Message = f.V.Msg + " [not minimised: the minimised scenario did not reproduce in a fresh process]"
		b, _ = json.MarshalIndent(&rp, "", " ")
		os.WriteFile(path, b, 0o644)
		if !replayReproduces(path) {
			rp.Prelude = &Prelude{Base: base, Tier: tier, From: f.From, To: f.RunIdx}
			rp.Message = f.V.Msg + fmt.Sprintf(" [depends on state left in the process by earlier runs: the replay re-executes runs %d..%d of this check first]", f.From, f.RunIdx)
			b, _ = json.MarshalIndent(&rp, "", " ")
			os.WriteFile(path, b, 0o644)
		}
	}
	return path
}

// replayReproduces runs `artsim replay <path>` in a fresh process.
func replayReproduces(path string) bool {
	self, err := os.Executable()
	if err != nil {
		return true
	}
	ctx, cancel := context.WithTimeout(context.Background(), 15*time.Minute)
	defer cancel()
	cmd := exec.CommandContext(ctx, self, "replay", path)
	cmd.Env = append(os.Environ(), "GOMAXPROCS=4")
	err = cmd.Run()
	if ee, ok := err.(*exec.ExitError); ok {
		return ee.ExitCode() == 1
	}
	return false
}

func minimiseInChild(c *Check, sc *Scenario, v Violation) (*Scenario, Violation) {
	tmp, err := os.CreateTemp(filepath.Join(verifRoot(), "bin"), "min-*.json")
	if err != nil {
		return sc, v
	}
	defer os.Remove(tmp.Name())
	in := Replay{Property: c.ID, Rule: v.Rule, Sig: v.Sig, Scenario: sc, Message: v.Msg}
	b, _ := json.Marshal(&in)
	tmp.Write(b)
	tmp.Close()
	self, _ := os.Executable()
	out := tmp.Name() + ".out"
	defer os.Remove(out)
	// hard limit: one candidate can take arbitrarily long (see minimiser.checkpoint); the child
	// is killed and the best scenario it had saved is used
	ctx, cancel := context.WithTimeout(context.Background(), time.Duration(envInt("VERIF_MIN_SECONDS", 60)+120)*time.Second)
	defer cancel()
	cmd := exec.CommandContext(ctx, self, "minimise", tmp.Name(), out)
	cmd.Env = append(os.Environ(), "GOMAXPROCS=4")
	cmd.Run()
	ob, err := os.ReadFile(out)
	if err != nil {
		return sc, v
	}
	var rp Replay
	if json.Unmarshal(ob, &rp) != nil || rp.Scenario == nil {
		return sc, v
	}
	v.Msg = rp.Message
	return rp.Scenario, v
}

func writeEvidence(c *Check, tier string, base uint64, st *Stats, wall float64, nviol int, W int) {
	if os.Getenv("VERIF_NO_EVIDENCE") != "" {
		// set by tools/seedcheck.py and tools/seedall.py: runs against a deliberately broken
		// tree must not replace the evidence of the real one
		return
	}
	distinct := len(st.Shapes)
	perHour := 0.0
	if wall > 0 {
		perHour = float64(st.Evals) / wall * 3600
	}
	cov := map[string]interface{}{
		"evaluations":               st.Evals,
		"distinct_nontrivial":       distinct,
		"rule":                      c.Rule,
		"samples":                   st.Samples,
		"simulated_runs_per_hour":   int64(perHour),
		"seeds_per_hour":            int64(perHour),
		"simulated_time_steps":      st.Steps,
		"fault_kinds_fired":         st.Faults,
		"probes":                    st.Probes,
		"distinct_interleavings":    len(st.Inter),
		"trivial_runs":              st.Trivial,
		"workers":                   W,
		"components_real":           c.Real,
		"components_stub":           c.Stub,
		"extra":                     st.Extra,
		"exhaustive":                false,
	}
	ev := evidence{PropertyID: c.ID, Tier: tier, Seed: int64(base & 0x7fffffffffffffff), Level: c.Level, Coverage: cov, Assumptions: c.Assume, WallS: wall, Violations: nviol}
	b, _ := json.MarshalIndent(&ev, "", " ")
	dir := filepath.Join(verifRoot(), "evidence")
	os.MkdirAll(dir, 0o755)
	if err := os.WriteFile(filepath.Join(dir, c.ID+".json"), b, 0o644); err != nil {
		fmt.Fprintln(os.Stderr, "cannot write evidence:", err)
		os.Exit(2)
	}
}

// childViolation prefixes the line by which the child of a ".fatal" replay reports an
// ordinary violation of the same property to its parent.
const childViolation = "CHILD-VIOLATION "

// replayMain re-executes a stored scenario in this (fresh) process.
func replayMain(path string) int {
	b, err := os.ReadFile(path)
	if err != nil {
		fmt.Fprintln(os.Stderr, err)
		return 2
	}
	var rp Replay
	if err := json.Unmarshal(b, &rp); err != nil {
		fmt.Fprintln(os.Stderr, err)
		return 2
	}
	c, ok := checks[rp.Property]
	if !ok {
		fmt.Fprintln(os.Stderr, "unknown property", rp.Property)
		return 2
	}
	if strings.HasSuffix(rp.Rule, ".fatal") && os.Getenv("VERIF_REPLAY_CHILD") == "" {
		// the run killed its worker process: replay it in a child under the same address-space cap
		self, _ := os.Executable()
		cmd := exec.Command(self, "replay", path)
		cmd.Env = append(os.Environ(), "VERIF_REPLAY_CHILD=1", "GOMAXPROCS=2")
		out, err := cmd.CombinedOutput()
		if err != nil && (strings.Contains(string(out), "fatal error:") || strings.Contains(string(out), "signal:") || strings.Contains(err.Error(), "signal")) {
			fmt.Printf("VIOLATION property=%s replay=%s\n  rule=%s signature=%s\n  the run kills the process executing it: %s\n", rp.Property, path, rp.Rule, rp.Sig, firstLine(string(out)))
			return 1
		}
		// A worker dies of what it holds when the run starts plus what the run allocates; a fresh
		// process holds nothing, so the same run may survive here. If it then violates the property
		// by an ordinary rule (not an open known finding) the file still reproduces a violation.
		if ee, ok := err.(*exec.ExitError); ok && ee.ExitCode() == 1 {
			for _, l := range strings.Split(string(out), "\n") {
				if strings.HasPrefix(l, childViolation) {
					fmt.Printf("VIOLATION property=%s replay=%s\n  rule=%s signature=%s\n  the run did not kill a fresh process; in it: %s\n", rp.Property, path, rp.Rule, rp.Sig, strings.TrimPrefix(l, childViolation))
					return 1
				}
			}
		}
		fmt.Printf("replay: the run did not kill its process this time (exit %v)\n%s\n", err, tail(string(out), 400))
		return 0
	}
	if os.Getenv("VERIF_REPLAY_CHILD") != "" {
		if gb := envInt("VERIF_WORKER_AS_GB", 10); gb > 0 {
			lim := syscall.Rlimit{Cur: uint64(gb) << 30, Max: uint64(gb) << 30}
			syscall.Setrlimit(syscall.RLIMIT_AS, &lim)
		}
	}
	if p := rp.Prelude; p != nil {
		if c.Shared != nil {
			c.Shared(p.Base)
		}
		for j := p.From; j <= p.To; j++ {
			runOne(c, c.Gen(seedFor(p.Base, c.ID, j), p.Tier), NewStats())
		}
	}
	vs := runOne(c, rp.Scenario, NewStats())
	for _, v := range vs {
		if v.Rule == rp.Rule && v.Sig == rp.Sig {
			fmt.Printf("VIOLATION property=%s replay=%s\n  rule=%s signature=%s\n  %s\n", rp.Property, path, v.Rule, v.Sig, v.Msg)
			return 1
		}
	}
	if os.Getenv("VERIF_REPLAY_CHILD") != "" {
		known := loadKnown()
		for _, v := range vs {
			if matchKnown(known, rp.Property, v) == nil {
				fmt.Printf("%srule=%s signature=%s %s\n", childViolation, v.Rule, v.Sig, firstLine(v.Msg))
				return 1
			}
		}
		fmt.Println("replay: no violation reproduced")
		return 0
	}
	if len(vs) > 0 {
		fmt.Printf("replay produced different violations (%d), first: rule=%s signature=%s %s\n", len(vs), vs[0].Rule, vs[0].Sig, vs[0].Msg)
		return 1
	}
	fmt.Println("replay: no violation reproduced")
	return 0
}
