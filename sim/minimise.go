package main

// Scenario minimiser: delta debugging on the scenario value (not on the seed). A
// candidate is kept only if the same rule with the same signature still fires.

import (
	"encoding/json"
	"fmt"
	"os"
	"time"
)

type minimiser struct {
	c        *Check
	rule     string
	sig      string
	best     *Scenario
	msg      string
	runs     int
	maxRuns  int
	deadline time.Time
	out      string
}

func (m *minimiser) exhausted() bool { return m.runs >= m.maxRuns || time.Now().After(m.deadline) }

func (m *minimiser) try(cand *Scenario) bool {
	if m.exhausted() {
		return false
	}
	m.runs++
	ok := false
	msg := ""
	func() {
		defer func() {
			if r := recover(); r != nil {
				// harness errors on malformed candidates: not a reproduction
				ok = false
			}
		}()
		for _, v := range m.c.Run(cand, NewStats()) {
			if v.Rule == m.rule && v.Sig == m.sig {
				ok = true
				msg = v.Msg
				return
			}
		}
	}()
	if ok {
		m.best = cand
		m.msg = msg
		m.checkpoint()
	}
	return ok
}

// checkpoint writes the best scenario so far: a candidate that takes forever (an emptied
// program can turn into a gas-bounded loop over an enormous gas limit) gets this process
// killed by the driver, which then uses what was saved.
func (m *minimiser) checkpoint() {
	if m.out == "" {
		return
	}
	rp := Replay{Property: m.c.ID, Rule: m.rule, Sig: m.sig, Scenario: m.best, Message: fmt.Sprintf("%s [minimised in %d runs]", m.msg, m.runs)}
	if b, err := json.Marshal(&rp); err == nil {
		os.WriteFile(m.out+".tmp", b, 0o644)
		os.Rename(m.out+".tmp", m.out)
	}
}

func macroLists(sc *Scenario) []*[]Macro {
	var out []*[]Macro
	var walkProg func(p *Program)
	var walkList func(l *[]Macro)
	walkList = func(l *[]Macro) {
		out = append(out, l)
		for i := range *l {
			if len((*l)[i].Body) > 0 {
				walkList(&(*l)[i].Body)
			}
		}
	}
	walkProg = func(p *Program) {
		if p == nil {
			return
		}
		walkList(&p.M)
		for i := range p.D {
			walkProg(p.D[i].Prog)
		}
	}
	for i := range sc.Accounts {
		walkProg(sc.Accounts[i].Code)
	}
	for i := range sc.Execs {
		for j := range sc.Execs[i].Txs {
			walkProg(sc.Execs[i].Txs[j].Init)
		}
	}
	return out
}

func (m *minimiser) run() {
	progress := true
	for progress && !m.exhausted() {
		progress = false
		// independent worlds
		for i := len(m.best.Subs) - 1; i >= 0 && len(m.best.Subs) > 1; i-- {
			c := m.best.Clone()
			c.Subs = append(c.Subs[:i], c.Subs[i+1:]...)
			c.Sched.Choices = nil
			if m.try(c) {
				progress = true
			}
		}
		// executors
		for i := len(m.best.Execs) - 1; i >= 0 && len(m.best.Execs) > 1; i-- {
			c := m.best.Clone()
			c.Execs = append(c.Execs[:i], c.Execs[i+1:]...)
			var fs []Fault
			for _, f := range c.Faults {
				if f.Ex == i {
					continue
				}
				if f.Ex > i {
					f.Ex--
				}
				fs = append(fs, f)
			}
			c.Faults = fs
			c.Sched.Choices = nil
			if m.try(c) {
				progress = true
			}
		}
		// schedule
		if len(m.best.Sched.Choices) > 0 || m.best.Sched.SwitchPPM > 0 {
			c := m.best.Clone()
			c.Sched = Sched{}
			if m.try(c) {
				progress = true
			} else if n := len(m.best.Sched.Choices); n >= 4 {
				c := m.best.Clone()
				c.Sched.Choices = c.Sched.Choices[:(n/4)*2]
				if m.try(c) {
					progress = true
				}
			}
		}
		// transactions (from the end)
		for e := range m.best.Execs {
			for i := len(m.best.Execs[e].Txs) - 1; i >= 0; i-- {
				if len(m.best.Execs[e].Txs) <= 1 {
					break
				}
				c := m.best.Clone()
				c.Execs[e].Txs = append(c.Execs[e].Txs[:i], c.Execs[e].Txs[i+1:]...)
				var fs []Fault
				for _, f := range c.Faults {
					if f.Ex == e && f.Tx == i {
						continue
					}
					if f.Ex == e && f.Tx > i {
						f.Tx--
					}
					fs = append(fs, f)
				}
				c.Faults = fs
				if m.try(c) {
					progress = true
				}
			}
		}
		// faults
		for i := len(m.best.Faults) - 1; i >= 0; i-- {
			c := m.best.Clone()
			c.Faults = append(c.Faults[:i], c.Faults[i+1:]...)
			if m.try(c) {
				progress = true
			}
		}
		// bindings and aspects
		for i := len(m.best.Bindings) - 1; i >= 0; i-- {
			c := m.best.Clone()
			c.Bindings = append(c.Bindings[:i], c.Bindings[i+1:]...)
			if m.try(c) {
				progress = true
				continue
			}
			for j := len(m.best.Bindings[i].Aspects) - 1; j >= 0 && len(m.best.Bindings[i].Aspects) > 1; j-- {
				c := m.best.Clone()
				c.Bindings[i].Aspects = append(c.Bindings[i].Aspects[:j], c.Bindings[i].Aspects[j+1:]...)
				if m.try(c) {
					progress = true
				}
			}
		}
		// history ops
		if n := len(m.best.Ops); n > 0 {
			for chunk := n / 2; chunk >= 1; chunk /= 2 {
				for i := 0; i+chunk <= len(m.best.Ops); {
					c := m.best.Clone()
					c.Ops = append(c.Ops[:i], c.Ops[i+chunk:]...)
					if m.try(c) {
						progress = true
					} else {
						i += chunk
					}
					if m.exhausted() {
						break
					}
				}
			}
		}
		// accounts
		for i := len(m.best.Accounts) - 1; i >= 0; i-- {
			c := m.best.Clone()
			c.Accounts = append(c.Accounts[:i], c.Accounts[i+1:]...)
			if m.try(c) {
				progress = true
			}
		}
		// macros: remove chunks, then singles
		nl := len(macroLists(m.best))
		for li := 0; li < nl; li++ {
			lists := macroLists(m.best)
			if li >= len(lists) {
				break
			}
			n := len(*lists[li])
			for chunk := (n + 1) / 2; chunk >= 1; chunk /= 2 {
				for i := 0; ; {
					lists = macroLists(m.best)
					if li >= len(lists) || i+chunk > len(*lists[li]) {
						break
					}
					c := m.best.Clone()
					cl := macroLists(c)
					l := cl[li]
					*l = append((*l)[:i:i], (*l)[i+chunk:]...)
					if m.try(c) {
						progress = true
					} else {
						i += chunk
					}
					if m.exhausted() {
						return
					}
				}
				if chunk == 1 {
					break
				}
			}
		}
		// unwrap if/loop bodies
		for li := 0; li < len(macroLists(m.best)); li++ {
			lists := macroLists(m.best)
			for i := 0; i < len(*lists[li]); i++ {
				mm := (*lists[li])[i]
				if (mm.K == "if" || mm.K == "loop") && len(mm.Body) > 0 {
					c := m.best.Clone()
					cl := macroLists(c)
					l := cl[li]
					nl := append([]Macro{}, (*l)[:i]...)
					nl = append(nl, mm.Body...)
					nl = append(nl, (*l)[i+1:]...)
					*l = nl
					if m.try(c) {
						progress = true
						break
					}
				}
			}
		}
		// tx simplification
		for e := range m.best.Execs {
			for i := range m.best.Execs[e].Txs {
				tx := m.best.Execs[e].Txs[i]
				if tx.Data != "" && tx.Data != "0x" {
					c := m.best.Clone()
					c.Execs[e].Txs[i].Data = ""
					if m.try(c) {
						progress = true
					}
				}
				if tx.Value != "" && tx.Value != "0x0" {
					c := m.best.Clone()
					c.Execs[e].Txs[i].Value = ""
					if m.try(c) {
						progress = true
					}
				}
				if len(tx.AL) > 0 {
					c := m.best.Clone()
					c.Execs[e].Txs[i].AL = nil
					if m.try(c) {
						progress = true
					}
				}
			}
		}
		if len(m.best.ExtraEIPs) > 0 {
			c := m.best.Clone()
			c.ExtraEIPs = nil
			if m.try(c) {
				progress = true
			}
		}
	}
	// operand simplification (single pass, cheap candidates only)
	lists := macroLists(m.best)
	for li := range lists {
		for i := range *lists[li] {
			for a := range (*lists[li])[i].A {
				if m.exhausted() {
					return
				}
				cur := (*macroLists(m.best)[li])[i].A[a]
				if cur == "0x0" || cur == "GAS" || len(cur) < 5 {
					continue
				}
				c := m.best.Clone()
				(*macroLists(c)[li])[i].A[a] = "0x0"
				m.try(c)
			}
		}
	}
}

func minimiseMain(in, out string) int {
	b, err := os.ReadFile(in)
	if err != nil {
		return 2
	}
	var rp Replay
	if err := json.Unmarshal(b, &rp); err != nil {
		return 2
	}
	c := checks[rp.Property]
	m := &minimiser{c: c, rule: rp.Rule, sig: rp.Sig, best: rp.Scenario, msg: rp.Message,
		maxRuns: envInt("VERIF_MIN_RUNS", 2000), deadline: time.Now().Add(time.Duration(envInt("VERIF_MIN_SECONDS", 60)) * time.Second), out: out}
	// confirm first
	if !m.try(rp.Scenario.Clone()) {
		rp.Message = "(did not reproduce on confirmation run) " + rp.Message
		ob, _ := json.Marshal(&rp)
		os.WriteFile(out, ob, 0o644)
		return 0
	}
	m.run()
	rp.Scenario = m.best
	rp.Message = fmt.Sprintf("%s [minimised in %d runs]", m.msg, m.runs)
	ob, _ := json.Marshal(&rp)
	os.WriteFile(out, ob, 0o644)
	return 0
}
