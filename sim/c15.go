package main

// C15: Cancun additions. (a) transient storage: refinement against go-ethereum
// v1.12.0 + EIP-1153 on Shanghai rules with TLOAD/TSTORE transliterated to the bytes
// that release uses (0xb3/0xb4); (b) MCOPY against an executable model of EIP-5656 run
// as a shadow on the step stream; (c) before Cancun the three bytes fault as invalid.
// Gas cuts (F1) and reverts exercise "restored when a frame reverts" at every
// instruction boundary; multi-transaction executors check "empty at the start".

import (
	"bytes"
	"fmt"
	"math/bits"

	"github.com/ethereum/go-ethereum/common"
)

func genC15(seed uint64, tier string) *Scenario {
	r := NewRNG(seed)
	sc := &Scenario{Prop: "C15", Seed: seed, Block: genBlock(r), Tracer: "rec", Fork: "Cancun"}
	sc.Profile = pick(r, []string{"tstore", "tstore", "mcopy", "mcopy", "precancun"})
	if sc.Profile == "precancun" {
		sc.Fork = pick(r, []string{"Shanghai", "Merge", "London", "Berlin", "Istanbul", "Byzantium", "Frontier"})
	}
	nc := 1 + r.Intn(3)
	g := &genCtx{fork: sc.Fork, nContract: nc, strictOps: true, cancun: true, noIntro: true, noMcopy: sc.Profile == "tstore"}
	if sc.Profile == "precancun" {
		g.fork = sc.Fork
	}
	for i := 0; i < nc; i++ {
		g.targets = append(g.targets, contractAddr(i))
	}
	sc.Accounts = append(sc.Accounts, Account{Addr: eoaA, Balance: "0xffffffffffffffffffff"}, Account{Addr: eoaB, Balance: "0x3e8"}, Account{Addr: codeless, Balance: "0x1"})
	for i := 0; i < nc; i++ {
		p := &Program{}
		saved := curProg
		curProg = p
		n := 3 + r.Intn(12)
		for k := 0; k < n; k++ {
			switch {
			case sc.Profile != "tstore" && r.P(1, 3):
				// MCOPY with overlapping, zero-length, out-of-range operands after making memory non-trivial
				if r.Bool() {
					p.M = append(p.M, Macro{K: "op", Op: "MSTORE", A: []string{hxu(uint64(32 * r.Intn(8))), hx(r.Bytes(32))}})
				}
				p.M = append(p.M, Macro{K: "op", Op: "MCOPY", A: []string{genOff(r), genOff(r), genSize(r)}})
				p.M = append(p.M, Macro{K: "op", Op: "MSIZE", Dst: genDst(r)})
			case r.P(1, 3):
				if r.Bool() {
					p.M = append(p.M, Macro{K: "op", Op: "TSTORE", A: []string{genSlot(r), genVal(r)}})
				} else {
					p.M = append(p.M, Macro{K: "op", Op: "TLOAD", A: []string{genSlot(r)}, Dst: genDst(r)})
				}
			default:
				p.M = append(p.M, g.genMacro(r, 0)...)
			}
		}
		if r.P(3, 4) {
			p.M = append(p.M, g.genTerm(r))
		}
		curProg = saved
		sc.Accounts = append(sc.Accounts, Account{Addr: contractAddr(i), Balance: hxu(uint64(r.Intn(5000))), Nonce: 1, Code: p})
	}
	var ex Exec
	ntx := 1 + r.Intn(3)
	for t := 0; t < ntx; t++ {
		tx := genTx(r, g)
		for tx.Kind == "create2" || tx.Kind == "create" {
			tx = genTx(r, g)
		}
		if g.heavy && tx.Gas > 250000 {
			tx.Gas = 100000 + tx.Gas%150000 // see genStdScenario
		}
		ex.Txs = append(ex.Txs, tx)
	}
	sc.Execs = []Exec{ex}
	return sc
}

// refScenario1153: same world on Shanghai + EIP-1153 with TLOAD/TSTORE at 0xb3/0xb4.
func refScenario1153(sc *Scenario) *Scenario {
	c := sc.Clone()
	c.Fork = "Shanghai"
	c.ExtraEIPs = []int{1153}
	for _, l := range macroLists(c) {
		for i := range *l {
			switch (*l)[i].Op {
			case "TLOAD":
				(*l)[i].Op = "TLOAD_B3"
			case "TSTORE":
				(*l)[i].Op = "TSTORE_B4"
			}
		}
	}
	return c
}

func memGasWords(words uint64) uint64 { return words*3 + words*words/512 }

func ceil32(x uint64) uint64 { return (x + 31) / 32 * 32 }

func c15Run(sc *Scenario, st *Stats) []Violation {
	var vs []Violation
	add := func(rule, sig string, seq int, scn *Scenario, format string, a ...interface{}) {
		vs = append(vs, Violation{Prop: "C15", Rule: rule, Sig: sig, Seq: seq, Sc: scn, Msg: fmt.Sprintf(format, a...)})
	}
	one := func(s *Scenario, tag string, scn *Scenario) (*Log, *SutEnv) {
		l, suts, _ := runSuts(s, sutOpts{tracer: true})
		sut := suts[0]
		st.Steps += l.Len()
		for _, r := range sut.Results {
			if r.Panic != "" {
				add("C15.panic"+tag, r.PanicSite, r.EvTo, scn, "panicked: %s", r.Panic)
			}
		}
		evs := tracerEvents(l, 0)
		switch s.Profile {
		case "tstore":
			rs := refScenario1153(s)
			rl := NewLog()
			ref := NewRefEnv(rs, 0, rl, true)
			ref.RunAll()
			revs := tracerEvents(rl, 0)
			for _, e := range revs {
				if e.K == evStep || e.K == evFault {
					switch e.Op {
					case 0xb3:
						e.Op = 0x5c
					case 0xb4:
						e.Op = 0x5d
					}
				}
			}
			g, sd, at := compareStreams(evs, revs)
			if g == "" {
				g = sd
			}
			if g != "" {
				op := byte(0)
				if at < len(evs) {
					op = evs[at].Op
				}
				add("C15.transient"+tag, sigOp(op), at, scn, "differs from go-ethereum v1.12.0 + EIP-1153: %s", g)
			}
			for i := range sut.Results {
				a, b := &sut.Results[i], &ref.Results[i]
				if !bytes.Equal(a.Ret, b.Ret) || a.Class != b.Class || a.GasLeft != b.GasLeft || !logsEq(a.Logs, b.Logs) || a.Refund != b.Refund {
					add("C15.transient"+tag, "result", a.EvTo, scn, "tx %d result (%s) differs from reference (%s)", i, a.String(), b.String())
				}
			}
			// storage of the scenario's accounts (state roots differ because code bytes differ)
			for _, ac := range s.Accounts {
				for _, slot := range []uint64{0, 1, 2, 3, 4, 5, 0x10, 0x11, 0x12, 0x13, 0x14, 0x15, 0x20, 0x21, 0x22, 0x23} {
					k := common.BigToHash(bigOf(hxu(slot)))
					if x, y := sut.St.GetState(addr(ac.Addr), k), ref.St.GetState(addr(ac.Addr), k); x != y {
						add("C15.transient"+tag, "storage", l.Len(), scn, "account %s slot %x holds %x, reference %x", ac.Addr, slot, x, y)
					}
				}
				if x, y := sut.St.GetBalance(addr(ac.Addr)), ref.St.GetBalance(addr(ac.Addr)); x.Cmp(y) != 0 {
					add("C15.transient"+tag, "balance", l.Len(), scn, "account %s balance %s, reference %s", ac.Addr, x, y)
				}
			}
		case "mcopy":
			// shadow model on the step stream
			for i, e := range evs {
				if e.K != evStep || e.Op != 0x5e {
					continue
				}
				st.Probes["mcopy-steps"]++
				n := len(e.Stack)
				if n < 3 {
					continue
				}
				dst, src, ln := e.Stack[n-1], e.Stack[n-2], e.Stack[n-3]
				// expected cost
				bad := !ln.IsUint64() || (!ln.IsZero() && (!dst.IsUint64() || !src.IsUint64()))
				var newLen, cost uint64
				oldLen := uint64(e.MemLen)
				if !bad {
					L := ln.Uint64()
					newLen = oldLen
					if L > 0 {
						m := dst.Uint64()
						if src.Uint64() > m {
							m = src.Uint64()
						}
						end, carry := bits.Add64(m, L, 0)
						if carry != 0 || end > 0x1FFFFFFFE0 {
							bad = true
						} else if ceil32(end) > newLen {
							newLen = ceil32(end)
						}
					}
					if !bad {
						words := (L + 31) / 32
						cost = 3 + 3*words + memGasWords(newLen/32) - memGasWords(oldLen/32)
					}
				}
				if bad || cost > e.Gas {
					if e.Err == "" {
						add("C15.mcopy-gas"+tag, "should-fail", e.Seq, scn, "MCOPY(dst %s, src %s, len %s) with %d gas must run out of gas / overflow, but was charged %d", dst.Hex(), src.Hex(), ln.Hex(), e.Gas, e.Cost)
					}
					continue
				}
				if e.Err != "" {
					add("C15.mcopy-gas"+tag, "should-succeed", e.Seq, scn, "MCOPY(dst %s, src %s, len %s) with %d gas failed with %q; the model charges %d", dst.Hex(), src.Hex(), ln.Hex(), e.Gas, e.Err, cost)
					continue
				}
				if e.Cost != cost {
					add("C15.mcopy-gas"+tag, "cost", e.Seq, scn, "MCOPY(dst %s, src %s, len %s) memory %d -> %d charged %d gas; EIP-5656 says %d", dst.Hex(), src.Hex(), ln.Hex(), oldLen, newLen, e.Cost, cost)
				}
				// memory after: the next step of the same frame
				var next *Ev
				for j := i + 1; j < len(evs); j++ {
					if evs[j].K == evStep && evs[j].Depth == e.Depth {
						next = evs[j]
						break
					}
					if (evs[j].K == evExit || evs[j].K == evEnd || evs[j].K == evFault) && evs[j].Depth <= e.Depth {
						break
					}
				}
				if next == nil {
					continue
				}
				exp := make([]byte, newLen)
				copy(exp, e.Mem)
				if L := ln.Uint64(); L > 0 {
					tmp := append([]byte{}, exp[src.Uint64():src.Uint64()+L]...)
					copy(exp[dst.Uint64():], tmp)
				}
				if next.MemLen != int(newLen) || next.MemH != h64(exp) {
					add("C15.mcopy-mem"+tag, "memory", next.Seq, scn, "after MCOPY(dst %s, src %s, len %s) memory is %d bytes (hash %x); an overlap-safe memmove with expansion to both ranges gives %d bytes (hash %x)",
						dst.Hex(), src.Hex(), ln.Hex(), next.MemLen, next.MemH, newLen, h64(exp))
				}
			}
		case "precancun":
			for i, e := range evs {
				if e.K != evStep || (e.Op != 0x5c && e.Op != 0x5d && e.Op != 0x5e) {
					continue
				}
				st.Probes["cancun-byte-before-cancun"]++
				ok := i+1 < len(evs) && evs[i+1].K == evFault && len(evs[i+1].Err) >= 14 && evs[i+1].Err[:14] == "invalid opcode"
				if e.Err != "" {
					ok = true // stack validation etc. failed first: still a fault
				}
				if !ok {
					add("C15.precancun"+tag, sigOp(e.Op), e.Seq, scn, "byte %02x executed on fork %s instead of faulting as an invalid instruction", e.Op, s.Fork)
				}
			}
		}
		return l, sut
	}
	l, sut := one(sc, "", nil)
	h, steps := shapeHash(l)
	st.Shape(h, steps >= 5)
	if len(vs) > 0 || hasGasFault(sc) {
		return vs
	}
	// F1: gas cuts
	r := NewRNG(sc.Seed ^ 0xc15)
	for i := range sut.Results {
		G := sc.Execs[0].Txs[i].Gas
		top, nested := cutList(l, 0, &sut.Results[i], G)
		var limits []uint64
		for _, u := range top {
			if u > 0 && u < G {
				limits = append(limits, u, u+1)
			}
		}
		for _, iv := range nested {
			limits = append(limits, iv[0]+1+uint64(r.Intn(int(iv[1]-iv[0]-1))))
		}
		n := sc.P("cuts", 6)
		for k := 0; k < n && len(limits) > 0; k++ {
			c := withCut(sc, 0, i, limits[r.Intn(len(limits))])
			one(c, ".cut", c)
			st.Faults["F1.gas-cut"]++
			if len(vs) > 0 {
				return vs
			}
		}
	}
	return vs
}

func init() {
	register(&Check{ID: "C15", Level: "exploration",
		Rule:   "profiles: tstore (TLOAD/TSTORE mixed with calls of all kinds, static frames, reverts, several transactions; reference = go-ethereum v1.12.0 Shanghai + EIP-1153 on the transliterated program), mcopy (all (dst, src, len) incl. overlapping, zero-length, out-of-range; oracle = EIP-5656 model on the step stream: cost, expansion, memmove), precancun (the three bytes on every earlier fork); sampled gas cuts per transaction; distinct = hash of (opcode, depth) sequence; non-trivial = >= 5 instructions",
		Assume: []string{"programs avoid code introspection, CREATE2 and raw bytes so the 0x5c/0x5d -> 0xb3/0xb4 rewrite is unobservable", "state roots are not compared in the tstore profile (code bytes differ); storage slots, balances, logs, results and the full step stream are"},
		Real:   []string{"/repo/vm (Cancun instruction set, memory, gas tables)", "go-ethereum v1.12.0 core/vm + EIP-1153 (reference)", "go-ethereum StateDB (transient storage journal)"},
		Stub:   []string{"EIP-5656 executable model (harness)"}, Gen: genC15, Run: c15Run})
}
