package main

import (
	"math/big"
	"os"
	"strings"

	acore "github.com/artela-network/artela-evm/core"
	avm "github.com/artela-network/artela-evm/vm"
	"github.com/ethereum/go-ethereum/common"
	ecore "github.com/ethereum/go-ethereum/core"
	"github.com/ethereum/go-ethereum/core/rawdb"
	"github.com/ethereum/go-ethereum/core/state"
	"github.com/ethereum/go-ethereum/core/types"
	evm "github.com/ethereum/go-ethereum/core/vm"
	"github.com/ethereum/go-ethereum/crypto"
	"github.com/ethereum/go-ethereum/params"
)

// repoPrefix: where the system under test's sources live (stack-frame attribution).
// VERIF_REPO lets a background soak run build against a snapshot of /repo.
var repoPrefix = func() string {
	if r := os.Getenv("VERIF_REPO"); r != "" {
		return strings.TrimRight(r, "/") + "/"
	}
	return "/repo/"
}()

var forkOrder = []string{"Frontier", "Homestead", "Tangerine", "Spurious", "Byzantium", "Constantinople",
	"Petersburg", "Istanbul", "Berlin", "London", "Merge", "Shanghai", "Cancun"}

func forkIndex(f string) int {
	for i, n := range forkOrder {
		if n == f {
			return i
		}
	}
	panic(harnessErr("unknown fork " + f))
}

func forkAtLeast(f, min string) bool { return forkIndex(f) >= forkIndex(min) }

// chainConfig activates every fork up to and including `fork` at the scenario's own
// block number / time (so the fork boundary sits exactly on the executing block) and
// none after it.
func chainConfig(fork string, b BlockSpec) *params.ChainConfig {
	idx := forkIndex(fork)
	at := new(big.Int).SetUint64(b.Number)
	c := &params.ChainConfig{ChainID: big.NewInt(1)}
	set := func(i int, p **big.Int) {
		if idx >= i {
			*p = at
		}
	}
	set(1, &c.HomesteadBlock)
	set(2, &c.EIP150Block)
	set(3, &c.EIP155Block)
	set(3, &c.EIP158Block)
	set(4, &c.ByzantiumBlock)
	set(5, &c.ConstantinopleBlock)
	set(6, &c.PetersburgBlock)
	set(7, &c.IstanbulBlock)
	set(7, &c.MuirGlacierBlock)
	set(8, &c.BerlinBlock)
	set(9, &c.LondonBlock)
	if idx >= 10 {
		c.TerminalTotalDifficulty = big.NewInt(0)
		c.TerminalTotalDifficultyPassed = true
	}
	if idx >= 11 {
		t := b.Time
		c.ShanghaiTime = &t
	}
	if idx >= 12 {
		t := b.Time
		c.CancunTime = &t
	}
	return c
}

func addr(s string) common.Address { return common.BytesToAddress(unhex(s)) }

func bigOf(s string) *big.Int {
	if s == "" {
		return new(big.Int)
	}
	return new(big.Int).SetBytes(unhex(s))
}

func hashOf(s string) common.Hash { return common.BytesToHash(unhex(s)) }

func (a *Account) code() []byte {
	if a.Code != nil {
		return Assemble(a.Code)
	}
	if a.RawCode != "" {
		return unhex(a.RawCode)
	}
	return nil
}

// buildState creates a committed pre-state and returns a fresh StateDB opened on it.
// Each caller gets its own database, so nothing is shared between executors or between
// the system under test and the reference.
func buildState(sc *Scenario) *state.StateDB {
	db := state.NewDatabase(rawdb.NewMemoryDatabase())
	st, err := state.New(types.EmptyRootHash, db, nil)
	if err != nil {
		panic(harnessErr("state.New: " + err.Error()))
	}
	for i := range sc.Accounts {
		a := &sc.Accounts[i]
		ad := addr(a.Addr)
		st.CreateAccount(ad)
		st.SetBalance(ad, bigOf(a.Balance))
		st.SetNonce(ad, a.Nonce)
		if c := a.code(); len(c) > 0 {
			st.SetCode(ad, c)
		}
		for _, k := range sortedKeys(a.Storage) {
			st.SetState(ad, hashOf(k), hashOf(a.Storage[k]))
		}
	}
	root, err := st.Commit(false)
	if err != nil {
		panic(harnessErr("commit: " + err.Error()))
	}
	st2, err := state.New(root, db, nil)
	if err != nil {
		panic(harnessErr("state.New2: " + err.Error()))
	}
	return st2
}

func blockHashFn(n uint64) common.Hash {
	return crypto.Keccak256Hash(new(big.Int).SetUint64(n).Bytes())
}

func isMerge(fork string) bool { return forkAtLeast(fork, "Merge") }

func sutBlockCtx(sc *Scenario) avm.BlockContext {
	b := sc.Block
	bc := avm.BlockContext{
		CanTransfer: acore.CanTransfer,
		Transfer:    acore.Transfer,
		GetHash:     blockHashFn,
		Coinbase:    addr(b.Coinbase),
		GasLimit:    b.GasLimit,
		BlockNumber: new(big.Int).SetUint64(b.Number),
		Time:        b.Time,
		Difficulty:  new(big.Int).SetUint64(b.Difficulty),
	}
	if forkAtLeast(sc.Fork, "London") {
		bc.BaseFee = new(big.Int).SetUint64(b.BaseFee)
	}
	if isMerge(sc.Fork) {
		h := crypto.Keccak256Hash([]byte("random"), new(big.Int).SetUint64(b.Number).Bytes())
		bc.Random = &h
		bc.Difficulty = new(big.Int)
	}
	return bc
}

func refBlockCtx(sc *Scenario) evm.BlockContext {
	b := sc.Block
	bc := evm.BlockContext{
		CanTransfer: ecore.CanTransfer,
		Transfer:    ecore.Transfer,
		GetHash:     blockHashFn,
		Coinbase:    addr(b.Coinbase),
		GasLimit:    b.GasLimit,
		BlockNumber: new(big.Int).SetUint64(b.Number),
		Time:        b.Time,
		Difficulty:  new(big.Int).SetUint64(b.Difficulty),
	}
	if forkAtLeast(sc.Fork, "London") {
		bc.BaseFee = new(big.Int).SetUint64(b.BaseFee)
	}
	if isMerge(sc.Fork) {
		h := crypto.Keccak256Hash([]byte("random"), new(big.Int).SetUint64(b.Number).Bytes())
		bc.Random = &h
		bc.Difficulty = new(big.Int)
	}
	return bc
}

func accessList(al []AccessTuple) types.AccessList {
	var out types.AccessList
	for _, t := range al {
		tu := types.AccessTuple{Address: addr(t.Addr)}
		for _, s := range t.Slots {
			tu.StorageKeys = append(tu.StorageKeys, hashOf(s))
		}
		out = append(out, tu)
	}
	return out
}
