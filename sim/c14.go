package main

// C14: Artela precompiles 0x64 (context read), 0x65 (user-operation sender), 0x66
// (context write). The three host callbacks are the simulator's context store; an
// independent decoder of the payloads and a KV reference model decide.

import (
	"bytes"
	"fmt"
	"math/big"

	"github.com/ethereum/go-ethereum/common"
)

var (
	addrCtxRead  = common.BytesToAddress([]byte{100})
	addrSender   = common.BytesToAddress([]byte{101})
	addrCtxWrite = common.BytesToAddress([]byte{102})
)

const artelaFee = 5000

// decodeBytes2 is an independent ABI (bytes, bytes) decoder with unbounded arithmetic.
func decodeBytes2(p []byte) (key, val []byte, ok bool) {
	n := big.NewInt(int64(len(p)))
	param := func(i int) ([]byte, bool) {
		if len(p) < 32*(i+1) {
			return nil, false
		}
		off := new(big.Int).SetBytes(p[32*i : 32*i+32])
		end := new(big.Int).Add(off, big.NewInt(32))
		if end.Cmp(n) > 0 {
			return nil, false
		}
		o := int(off.Int64())
		l := new(big.Int).SetBytes(p[o : o+32])
		dend := new(big.Int).Add(end, l)
		if dend.Cmp(n) > 0 {
			return nil, false
		}
		return p[o+32 : o+32+int(l.Int64())], true
	}
	k, ok1 := param(0)
	if !ok1 {
		return nil, nil, false
	}
	v, ok2 := param(1)
	if !ok2 {
		return nil, nil, false
	}
	return k, v, true
}

func genC14(seed uint64, tier string) *Scenario {
	r := NewRNG(seed)
	sc := &Scenario{Prop: "C14", Seed: seed, Block: genBlock(r), Tracer: "rec"}
	sc.Fork = pick(r, []string{"Berlin", "London", "Merge", "Shanghai", "Cancun", "Berlin", "Istanbul", "Byzantium"})
	sc.Accounts = append(sc.Accounts, Account{Addr: eoaA, Balance: "0xffffffffffffffffffff"})
	depth := 1 + r.Intn(3)
	for i := 0; i < depth; i++ {
		p := &Program{}
		if i+1 < depth {
			kind := pick(r, []string{"CALL", "CALL", "DELEGATECALL", "CALLCODE", "STATICCALL"})
			p.M = append(p.M, Macro{K: "call", Op: kind, A: []string{"GAS", contractAddr(i + 1), "0x0", "0x0", "0x0", "0x0", "0x0"}, Flag: "m:0x0"})
		}
		if i+1 == depth || r.P(1, 3) {
			n := 1 + r.Intn(4)
			for k := 0; k < n; k++ {
				p.M = append(p.M, genArtelaCall(r, sc.Fork)...)
				// a read-back of a key that may have been written
				if r.P(1, 3) {
					pl := append(addr(contractAddr(i)).Bytes(), []byte(pick(r, []string{"k", "key1"}))...)
					p.M = append(p.M, storeBytes(0x200, pl)...)
					p.M = append(p.M, Macro{K: "call", Op: pick(r, []string{"CALL", "STATICCALL"}), A: []string{"GAS", "0x64", "0x0", "0x200", hxu(uint64(len(pl))), "0x600", "0x40"}, Flag: "m:0x20"})
				}
			}
		}
		sc.Accounts = append(sc.Accounts, Account{Addr: contractAddr(i), Balance: "0x100", Nonce: 1, Code: p})
	}
	var ex Exec
	ntx := 1 + r.Intn(3)
	for t := 0; t < ntx; t++ {
		tx := Tx{Kind: "call", From: eoaA, To: contractAddr(0), Gas: uint64(300000 + r.Intn(700000))}
		if r.P(1, 5) {
			tgt, p := artelaPayload(r)
			tx.To, tx.Data = tgt, hx(p)
			tx.Kind = pick(r, []string{"call", "callcode", "delegatecall", "staticcall"})
			if r.P(1, 3) {
				tx.Gas = uint64(4990 + r.Intn(20))
			}
		}
		ex.Txs = append(ex.Txs, tx)
	}
	sc.Execs = []Exec{ex}
	if r.P(1, 2) {
		sc.Faults = append(sc.Faults, Fault{Kind: "hostcb", Tx: r.Intn(ntx), At: 1 + r.Intn(4), Arg: pick(r, []string{"err", "empty", "big"})})
	}
	return sc
}

func c14Run(sc *Scenario, st *Stats) []Violation {
	t := treeRun(sc)
	st.AbsorbLog(t.L)
	h, steps := shapeHash(t.L)
	st.Shape(h, steps >= 3)
	var vs []Violation
	add := func(rule, sig string, seq int, format string, a ...interface{}) {
		vs = append(vs, Violation{Prop: "C14", Rule: rule, Sig: sig, Seq: seq, Msg: fmt.Sprintf(format, a...)})
	}
	for _, r := range t.Env.Results {
		if r.Panic != "" {
			add("C14.panic", r.PanicSite, r.EvTo, "panicked: %s", r.Panic)
			return vs
		}
	}
	berlin := forkAtLeast(sc.Fork, "Berlin")
	model := map[string][]byte{}
	kindName := map[byte]string{0xf1: "CALL", 0xf2: "CALLCODE", 0xf4: "DELEGATECALL", 0xfa: "STATICCALL"}
	for _, f := range t.H.Frames {
		if f.To != addrCtxRead && f.To != addrSender && f.To != addrCtxWrite {
			continue
		}
		if !f.Closed {
			continue
		}
		// host callbacks observed strictly inside this frame
		var cbs []*Ev
		var faultArg string
		for k := f.EnterSeq; k < f.ExitSeq && k < len(t.L.Evs); k++ {
			e := &t.L.Evs[k]
			if e.K == evHost && (e.Name == "GetAspectContext" || e.Name == "SetAspectContext" || e.Name == "JITSender") {
				cbs = append(cbs, e)
			}
			if e.K == evInject && len(e.Name) > 7 && e.Name[:7] == "hostcb-" {
				faultArg = e.Name
				st.Probes["host-callback-fault-inside-precompile"]++
			}
		}
		kn := kindName[f.Typ]
		tag := fmt.Sprintf("%x/%s", f.To[19], kn)
		if !berlin {
			if len(cbs) > 0 {
				add("C14.fork", tag, f.EnterSeq, "before Berlin address %x is an ordinary account but a host callback was invoked", f.To)
			}
			continue
		}
		st.Probes["artela-precompile-frame-"+kn]++
		returned := f.Gas - f.GasUsed
		if f.GasUsed > f.Gas {
			add("C14.gas", tag, f.ExitSeq, "precompile frame reports more gas used than given")
			continue
		}
		if f.Gas < artelaFee {
			if f.Err != "out of gas" || len(cbs) > 0 {
				add("C14.gas", tag+"/underfunded", f.ExitSeq, "call with %d gas (< fee %d): error %q, %d callbacks", f.Gas, artelaFee, f.Err, len(cbs))
			}
			continue
		}
		// a call that fails hands back nothing of its own: the caller's return-data buffer must
		// hold exactly what the host returned, and the host returned no data
		noOutput := func(why string) {
			if f.Err != "" && len(f.Out) != 0 {
				add("C14.return", tag+"/"+why+"/output-with-error", f.ExitSeq, "call failed with %q but returned %x (the host returned no data)", f.Err, f.Out)
			}
		}
		expectErr := func(why string) {
			if f.Err == "" {
				add("C14.malformed-accepted", tag+"/"+why, f.ExitSeq, "payload %x (%s) was accepted without error", f.In, why)
			}
			if len(cbs) > 0 {
				add("C14.malformed-callback", tag+"/"+why, f.ExitSeq, "payload %x (%s) still reached the host callback", f.In, why)
			}
			if f.Err != "" && returned != 0 {
				add("C14.gas", tag+"/error-gas", f.ExitSeq, "failed precompile call returned %d gas", returned)
			}
			noOutput(why)
		}
		expectOK := func(wantOut []byte) {
			if f.Err != "" {
				add("C14.refused", tag, f.ExitSeq, "well-formed payload %x failed with %q", f.In, f.Err)
				return
			}
			if f.GasUsed != artelaFee {
				add("C14.gas", tag+"/fee", f.ExitSeq, "charged %d gas, fixed fee is %d", f.GasUsed, artelaFee)
			}
			if !bytes.Equal(f.Out, wantOut) {
				add("C14.return", tag, f.ExitSeq, "returned %x, host returned %x", f.Out, wantOut)
			}
		}
		hostErr := faultArg != "" && len(faultArg) >= 10 && faultArg[7:10] == "err"
		switch f.To {
		case addrCtxRead:
			if len(f.In) < 20 {
				expectErr("shorter-than-address")
				continue
			}
			if len(cbs) != 1 || cbs[0].Name != "GetAspectContext" {
				add("C14.callback", tag, f.ExitSeq, "context read made %d callbacks", len(cbs))
				continue
			}
			cb := cbs[0]
			if cb.From != common.BytesToAddress(f.In[:20]) || !bytes.Equal(cb.Key, f.In[20:]) {
				add("C14.decode", tag, cb.Seq, "host asked for (%x, %q); payload holds (%x, %q)", cb.From, cb.Key, f.In[:20], f.In[20:])
			}
			if hostErr {
				if f.Err != errCtxStore.Error() || returned != 0 {
					add("C14.hosterr", tag, f.ExitSeq, "host callback failed; frame error %q, returned gas %d", f.Err, returned)
				}
				noOutput("host-error")
				continue
			}
			want := model[storeKey(cb.From, string(cb.Key))]
			switch {
			case faultArg != "" && faultArg[7:] == "empty-get":
				want = []byte{}
			case faultArg != "" && faultArg[7:] == "big-get":
				want = []byte(bigValue)
			}
			expectOK(want)
		case addrSender:
			if len(f.In) == 0 {
				expectErr("empty")
				continue
			}
			if len(f.In) != 32 {
				continue // no demand on odd-sized hashes beyond not crashing
			}
			if len(cbs) != 1 || cbs[0].Name != "JITSender" {
				add("C14.callback", tag, f.ExitSeq, "sender lookup made %d callbacks", len(cbs))
				continue
			}
			if !bytes.Equal(cbs[0].Key, f.In) {
				add("C14.decode", tag, cbs[0].Seq, "host asked for hash %x; payload holds %x", cbs[0].Key, f.In)
			}
			if hostErr {
				if f.Err != errCtxStore.Error() || returned != 0 {
					add("C14.hosterr", tag, f.ExitSeq, "host callback failed; frame error %q, returned gas %d", f.Err, returned)
				}
				noOutput("host-error")
				continue
			}
			expectOK(common.BytesToAddress(f.In[12:]).Hash().Bytes())
		case addrCtxWrite:
			key, val, ok := decodeBytes2(f.In)
			if !ok {
				why := "malformed-abi"
				if len(f.In) < 128 {
					why = "shorter-than-128"
				}
				expectErr(why)
				continue
			}
			if len(cbs) == 0 {
				// refusal is allowed (the property says "or refused") but must be an error, never silent
				if f.Err == "" {
					add("C14.silent-drop", tag, f.ExitSeq, "well-formed context write %x neither reached the host nor failed", f.In)
				} else {
					st.Probes["context-write-refused-"+kn]++
				}
				continue
			}
			if len(cbs) != 1 || cbs[0].Name != "SetAspectContext" {
				add("C14.callback", tag, f.ExitSeq, "context write made %d callbacks", len(cbs))
				continue
			}
			cb := cbs[0]
			if cb.From != f.From {
				add("C14.attribution", tag, cb.Seq, "context write recorded under %x; the call reached the precompile from %x", cb.From, f.From)
			}
			if !bytes.Equal(cb.Key, key) || !bytes.Equal(cb.Val, val) {
				add("C14.decode", tag, cb.Seq, "host got (%q, %x); payload holds (%q, %x)", cb.Key, cb.Val, key, val)
			}
			if hostErr {
				if f.Err != errCtxStore.Error() || returned != 0 {
					add("C14.hosterr", tag, f.ExitSeq, "host callback failed; frame error %q, returned gas %d", f.Err, returned)
				}
				noOutput("host-error")
				continue
			}
			model[storeKey(cb.From, string(cb.Key))] = cp(cb.Val)
			expectOK(nil)
		}
	}
	// store contents follow the map model across the whole multi-transaction history
	if berlin {
		for k, v := range t.Env.Host.Store {
			if !bytes.Equal(model[k], v) {
				add("C14.store", "contents", t.L.Len(), "context store holds %x under %x; the model holds %x", v, k, model[k])
			}
		}
		for k := range model {
			if _, ok := t.Env.Host.Store[k]; !ok {
				add("C14.store", "contents", t.L.Len(), "model holds key %x that the store lacks", k)
			}
		}
	}
	return vs
}

func init() {
	register(&Check{ID: "C14", Level: "exploration",
		Rule:   "callers at depth 1-3 reach 0x64/0x65/0x66 through CALL/CALLCODE/DELEGATECALL/STATICCALL and as entry-point targets with ABI templates and head/length-word mutations (0, len-32, len, 2^63, 2^64-32, 2^64-1, 2^256-1), truncations, random bytes; forks either side of Berlin; one host-callback fault (error / empty / 10 KiB) in half of the runs; multi-transaction store history; distinct = hash of event-kind sequence",
		Assume: []string{"decoder and KV model written independently in the harness", "odd-sized sender hashes carry no demand beyond not crashing"},
		Real:   []string{"/repo/vm precompiles + EVM call paths", "go-ethereum StateDB"}, Stub: []string{"types.GetAspectContext / SetAspectContext / JITSenderAspectByContext = simulator context store with fault injection"},
		Gen:    genC14, Run: c14Run})
}
