package main

// C04-C08, C13, C18(balance): fault enumeration over join-point firings of call-tree
// scenarios. For each generated scenario: one fault-free pass, then one run per
// (firing position, failure flavour), plus sampled gas cuts.

import (
	"encoding/json"
	"fmt"

	actypes "github.com/artela-network/aspect-core/types"
)

var f2Flavours = []string{"generic", "oog", "revert", "wrapped"}
var f3Flavours = []string{"trap", "revert", "loop"}

type enumOpts struct {
	f2one   bool // one random provider flavour per firing instead of all three
	f2      bool
	f3      int // number of WASM-fault runs per scenario (0 = none, -1 = all)
	cuts    int
	burns   bool
}

// faultVariants returns the single-fault variants of sc given the fault-free pass t0.
func faultVariants(sc *Scenario, t0 *TreeOut, o enumOpts, r *RNG) []*Scenario {
	var out []*Scenario
	for txi, n := range t0.Firings {
		if n > 24 {
			// very deep trees (depth-limit variant): sample positions, biased to both ends
			for _, k := range []int{1, 2, n/2 + 1, n - 1, n, 1 + r.Intn(n), 1 + r.Intn(n)} {
				if o.f2 && k >= 1 && k <= n {
					c := sc.Clone()
					c.Faults = append(c.Faults, Fault{Kind: "provider", Tx: txi, At: k, Arg: pick(r, f2Flavours)})
					out = append(out, c)
				}
			}
			continue
		}
		for k := 1; k <= n; k++ {
			if o.f2 {
				fls := f2Flavours
				if o.f2one {
					fls = []string{pick(r, f2Flavours)}
				}
				for _, fl := range fls {
					c := sc.Clone()
					c.Faults = append(c.Faults, Fault{Kind: "provider", Tx: txi, At: k, Arg: fl})
					out = append(out, c)
				}
			}
		}
		var f3 []*Scenario
		for k := 1; k <= n; k++ {
			for _, fl := range f3Flavours {
				c := sc.Clone()
				c.Faults = append(c.Faults, Fault{Kind: "aspect", Tx: txi, At: k, Arg: fl})
				f3 = append(f3, c)
			}
			if o.burns {
				for _, b := range []uint64{0, 50, 5000, 1 << 40} {
					c := sc.Clone()
					c.Faults = append(c.Faults, Fault{Kind: "aspect", Tx: txi, At: k, Arg: "burn", N: b})
					f3 = append(f3, c)
				}
			}
		}
		if o.f3 < 0 || len(f3) <= o.f3 {
			out = append(out, f3...)
		} else {
			for i := 0; i < o.f3; i++ {
				out = append(out, f3[r.Intn(len(f3))])
			}
		}
	}
	// C06: hand the outermost call exactly what its pre join point consumes (and one more /
	// one less), so that the Aspects leave exactly zero gas without running out
	if o.burns && len(t0.Env.Results) > 0 {
		i := len(t0.Env.Results) - 1
		for _, f := range t0.H.Roots {
			if f.Tx != i || f.Typ != 0xf1 || f.Create {
				continue
			}
			var first *Ev
			for _, a := range f.AspIn {
				if actypes.JoinPointRunType(a.JP) == actypes.JoinPointRunType_PreContractCall {
					first = a
					break
				}
			}
			last := lastAspOut(f, actypes.JoinPointRunType_PreContractCall)
			if first == nil || last == nil || last.Err != "" || first.Gas <= last.Gas {
				continue
			}
			cost := first.Gas - last.Gas
			for _, g := range []uint64{cost, cost + 1, cost - 1} {
				if g > 0 && g < sc.Execs[0].Txs[i].Gas {
					c := sc.Clone()
					c.Faults = append(c.Faults, Fault{Kind: "gas", Tx: i, N: g})
					out = append(out, c)
				}
			}
		}
	}
	// gas cuts (F1) on the last tx
	if o.cuts > 0 && len(t0.Env.Results) > 0 {
		i := len(t0.Env.Results) - 1
		res := &t0.Env.Results[i]
		G := sc.Execs[0].Txs[i].Gas
		top, nested := cutList(t0.L, 0, res, G)
		var limits []uint64
		for _, u := range top {
			if u > 0 && u < G {
				limits = append(limits, u)
			}
		}
		for _, iv := range nested {
			limits = append(limits, iv[0]+1+uint64(r.Intn(int(iv[1]-iv[0]-1))))
			limits = append(limits, iv[0]+1+uint64(r.Intn(int(iv[1]-iv[0]-1))))
		}
		for k := 0; k < o.cuts && len(limits) > 0; k++ {
			c := sc.Clone()
			c.Faults = append(c.Faults, Fault{Kind: "gas", Tx: i, N: limits[r.Intn(len(limits))]})
			out = append(out, c)
		}
	}
	return out
}

func hasFaults(sc *Scenario) bool { return len(sc.Faults) > 0 }

// treeCheck builds the Run function of a tree-family property.
func treeCheck(prop string, o func(tier string) enumOpts) func(sc *Scenario, st *Stats) []Violation {
	return func(sc *Scenario, st *Stats) []Violation {
		t0 := treeRun(sc)
		st.AbsorbLog(t0.L)
		h, steps := shapeHash(t0.L)
		st.Shape(h, steps >= 10 && len(t0.H.Frames) >= 2)
		vs := t0.For(prop)
		probeTree(t0, st)
		if hasFaults(sc) || sc.P("noenum", 0) == 1 {
			return vs
		}
		tier := "quick"
		if sc.P("thorough", 0) == 1 {
			tier = "thorough"
		}
		r := NewRNG(sc.Seed ^ 0xfa17)
		for _, c := range faultVariants(sc, t0, o(tier), r) {
			t := treeRun(c)
			st.AbsorbLog(t.L)
			st.Extra["fault-runs"]++
			probeTree(t, st)
			hh, _ := shapeHash(t.L)
			st.Shape(hh, true)
			for _, v := range t.For(prop) {
				v.Sc = c
				if fb, err := json.Marshal(c.Faults); err == nil {
					v.Msg += " [under faults " + string(fb) + "]"
				}
				vs = append(vs, v)
			}
		}
		return vs
	}
}

func probeTree(t *TreeOut, st *Stats) {
	for _, f := range t.H.Frames {
		if f.Closed && f.Err != "" {
			st.Probes["frame-closed-with-error"]++
			if f.Value != nil && f.Value.Sign() > 0 {
				st.Probes["failed-frame-had-value-transfer"]++
			}
		}
		if f.FromAspect {
			st.Probes["call-made-inside-aspect"]++
		}
		if f.Typ == 0xf1 && len(f.Prov) > 0 {
			for g := f.Parent; g != nil; g = g.Parent {
				if g.Typ == 0xfa {
					st.Probes["join-point-fired-below-static-frame"]++
					break
				}
			}
		}
		if len(f.AspIn) > 0 {
			st.Probes["aspect-executed"]++
		}
		if len(f.In) == 0 && len(f.Prov) > 0 {
			st.Probes["join-point-with-empty-calldata"]++
		}
	}
	for _, a := range t.H.Attempts {
		if a.Frame == nil && !a.Top {
			st.Probes["attempt-refused-before-entry"]++
		}
	}
	for _, r := range t.Env.Results {
		if r.Panic != "" {
			st.Probes["entry-point-panicked"]++
		}
	}
}

func treeGen(prop string, o treeOpts) func(seed uint64, tier string) *Scenario {
	return func(seed uint64, tier string) *Scenario {
		o.prop = prop
		sc := genTreeScenario(seed, o)
		if tier == "thorough" {
			if sc.Params == nil {
				sc.Params = map[string]int{}
			}
			sc.Params["thorough"] = 1
		}
		return sc
	}
}

func init() {
	real := []string{"/repo/vm (EVM, interpreter, state-change tracer, call tree)", "/repo/core Transfer", "aspect-core djpm dispatch + run.Runner", "aspect-runtime + wasmtime executing simulator-written WASM Aspects", "go-ethereum v1.12.0 StateDB over memory DB"}
	stub := []string{"AspectProvider (binding store, can fail)", "host callbacks (context store, EVM host hook)", "debug tracer = recorder", "BlockContext.Transfer wrapper (observes, forwards to /repo/core.Transfer)"}
	q := func(f3 int, cuts int, burns bool) func(string) enumOpts {
		return func(tier string) enumOpts {
			if tier == "thorough" {
				return enumOpts{f2: true, f3: -1, cuts: cuts * 4, burns: burns}
			}
			return enumOpts{f2: true, f2one: f3 < 2, f3: f3, cuts: cuts, burns: burns}
		}
	}
	register(&Check{ID: "C04", Level: "fault_enumeration",
		Rule:   "scenario = generated call tree (2-4 contracts, value transfers, storage writes/logs before/inside/after calls, creates, failing terminators, re-entrancy, Aspects bound to a random subset); for each scenario every join-point firing position is failed with each provider flavour (generic / out-of-gas text / revert sentinel) and sampled (quick) or all (thorough) WASM flavours (trap / revert(msg) / out-of-gas loop), plus gas cuts; distinct = hash of the event-kind sequence of each run; non-trivial = >= 2 frames and >= 10 instructions, every fault run counts",
		Assume: []string{"go-ethereum StateDB journal is trusted", "existence of empty accounts is not compared (inherited touch semantics)"},
		Real:   real, Stub: stub, Gen: treeGen("C04", treeOpts{bindProb: 40, aspectKind: "noop"}), Run: treeCheck("C04", q(2, 2, false)),
		Runs: map[string]int{"quick": 400, "thorough": 4000}})
	register(&Check{ID: "C05", Level: "fault_enumeration",
		Rule:   "same scenario family with calldata lengths from 0, precompile / code-less / non-existent targets, join-point switch toggled between transactions on one EVM; oracle = event grammar over provider events, Aspect-logger payloads and step/enter/exit events; each firing failed in turn; distinct = hash of event-kind sequence",
		Assume: []string{"provider is asked once per firing whether or not anything is bound (aspect-core behaviour)"},
		Real:   real, Stub: stub, Gen: func(seed uint64, tier string) *Scenario {
			// three runs in four have nothing bound (cheap: the firing grammar is observed through the
			// provider alone, so many more call-tree shapes are covered); one in four binds WASM Aspects
			// so that the payloads handed to them are checked too
			if seed%4 != 0 {
				return treeGen("C05", treeOpts{bindProb: 0, aspectKind: "noop", multiTx: true})(seed, tier)
			}
			return treeGen("C05", treeOpts{bindProb: 60, aspectKind: "noop", multiTx: true, maxAspects: 2})(seed, tier)
		}, Run: treeCheck("C05", q(2, 1, false)),
		Runs: map[string]int{"quick": 400, "thorough": 4000}})
	register(&Check{ID: "C06", Level: "fault_enumeration",
		Rule:   "call trees with burner Aspects (0, small, large, more-than-available iterations) bound at random subsets plus one injected burner / trap / loop at each firing in turn; oracle = gas equations over the history; distinct = hash of event-kind sequence",
		Assume: []string{"gas burnt by an Aspect = gas at aspect-enter minus gas at aspect-exit as reported to the Aspect logger"},
		Real:   real, Stub: stub, Gen: treeGen("C06", treeOpts{bindProb: 60, aspectKind: "burn", gasStable: true}), Run: treeCheck("C06", q(3, 1, true)),
		Runs: map[string]int{"quick": 300, "thorough": 3000}})
	register(&Check{ID: "C07", Level: "fault_enumeration",
		Rule:   "call trees incl. refusals (depth, balance, collision), creates, re-entrant calls from Aspects, several top-level calls and creates on one EVM; every firing failed in turn, gas cuts; oracle = tree invariants after every top-level return; distinct = hash of event-kind sequence",
		Assume: []string{"attempt order from the recorder's step stream"},
		Real:   real, Stub: stub, Gen: treeGen("C07", treeOpts{bindProb: 40, aspectKind: "noop", multiTx: true, callInside: true}), Run: treeCheck("C07", q(2, 3, false)),
		Runs: map[string]int{"quick": 400, "thorough": 4000}})
	register(&Check{ID: "C08", Level: "exploration",
		Rule:   "call trees with output regions overlapping input regions and stores over the argument area after calls; independent attempt log from the step stream vs call-tree nodes; online aliasing monitor; faults F1/F2/F3; distinct = hash of event-kind sequence",
		Assume: []string{"observed quantities only: flag, return data and gas delta at the caller's next step"},
		Real:   real, Stub: stub, Gen: treeGen("C08", treeOpts{bindProb: 30, aspectKind: "noop", multiTx: true}), Run: treeCheck("C08", q(1, 3, false)),
		Runs: map[string]int{"quick": 500, "thorough": 5000}})
	register(&Check{ID: "C13", Level: "exploration",
		Rule:   "call trees with arbitrary values (zero, self, new accounts, create endowments), frames that later revert (F1/F2/F3); balances observed at the wrapped Transfer seam vs Balance(addr).Changes() per call index; distinct = hash of event-kind sequence",
		Assume: []string{"balances read from the real StateDB at the seam"},
		Real:   real, Stub: stub, Gen: treeGen("C13", treeOpts{bindProb: 30, aspectKind: "noop", multiTx: true, journalSome: true}), Run: treeCheck("C13", q(1, 2, false)),
		Runs: map[string]int{"quick": 500, "thorough": 5000}})
}

var _ = fmt.Sprintf
