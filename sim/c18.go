package main

// C18: (stream) the debug-tracer callback stream equals go-ethereum v1.12.0's, argument
// by argument, fault-free and under gas cuts - shared machinery with C01/C02;
// (balance) start/end and enter/exit stay balanced when a join point aborts a call -
// tree scenarios with every firing failed in turn; (tracers) the inherited tracers,
// paired with their upstream originals on the same scenario, produce the same output.

import (
	"bytes"
	"encoding/json"
	"fmt"
	"sort"
	"strings"

	atracers "github.com/artela-network/artela-evm/tracers"
	alogger "github.com/artela-network/artela-evm/tracers/logger"
	_ "github.com/artela-network/artela-evm/tracers/native"
	avm "github.com/artela-network/artela-evm/vm"
	"github.com/ethereum/go-ethereum/core/types"
	evm "github.com/ethereum/go-ethereum/core/vm"
	etracers "github.com/ethereum/go-ethereum/eth/tracers"
	elogger "github.com/ethereum/go-ethereum/eth/tracers/logger"
	_ "github.com/ethereum/go-ethereum/eth/tracers/native"
)

var nativeTracerCfgs = map[string][]string{
	"callTracer":     {``, `{"onlyTopCall":true}`, `{"withLog":true}`, `{"onlyTopCall":true,"withLog":true}`},
	"flatCallTracer": {``, `{"convertParityErrors":true}`, `{"includePrecompiles":true}`, `{"convertParityErrors":true,"includePrecompiles":true}`},
	"prestateTracer": {``, `{"diffMode":true}`},
	"4byteTracer":    {``},
	"noopTracer":     {``},
	"muxTracer":      {`{"callTracer":{"withLog":true},"prestateTracer":{},"4byteTracer":null}`, `{"flatCallTracer":null,"prestateTracer":{"diffMode":true}}`},
}

var tracerKinds = []string{"structlog", "structlog", "jsonlog", "accesslist", "callTracer", "callTracer", "flatCallTracer", "flatCallTracer", "prestateTracer", "prestateTracer", "4byteTracer", "muxTracer", "noopTracer"}

func genC18(seed uint64, tier string) *Scenario {
	r := NewRNG(seed ^ 0xc18)
	switch r.Intn(10) {
	case 0, 1, 2: // stream
		sc := genStdScenario(seed, "C18", "Shanghai")
		sc.Profile = "stream"
		sc.Params = map[string]int{"cuts": 4}
		if tier == "thorough" {
			sc.Params["cuts"] = 40
		}
		return sc
	case 3, 4: // balance under join-point faults
		sc := genTreeScenario(seed, treeOpts{prop: "C18", bindProb: 25, aspectKind: "noop", multiTx: true, callInside: true})
		sc.Profile = "balance"
		if tier == "thorough" {
			sc.Params = map[string]int{"thorough": 1}
		}
		return sc
	default:
		sc := genStdScenario(seed, "C18", "Shanghai")
		// strict programs only: opcode *names* of bytes undefined upstream differ by design
		stripRaw(sc)
		// tracers learn their environment in CaptureStart: only entry points that announce a
		// top-level start (call, create, create2) are valid hosts for them
		for i := range sc.Execs[0].Txs {
			switch sc.Execs[0].Txs[i].Kind {
			case "callcode", "delegatecall", "staticcall":
				sc.Execs[0].Txs[i].Kind = "call"
			}
		}
		sc.Profile = "tracer"
		sc.Tracer = pick(r, tracerKinds)
		switch sc.Tracer {
		case "structlog", "jsonlog":
			cfg := map[string]interface{}{"EnableMemory": r.Bool(), "DisableStack": r.P(1, 4), "DisableStorage": r.P(1, 4), "EnableReturnData": r.Bool(), "Limit": pick(r, []int{0, 0, 0, 5, 50})}
			b, _ := json.Marshal(cfg)
			sc.TracerCfg = string(b)
		case "accesslist":
			// a prior list with storage keys under the sender, the recipient, a precompile and a
			// bystander: the tracer leaves out the bare addresses of the first three, not their keys
			for i := range sc.Execs[0].Txs {
				tx := &sc.Execs[0].Txs[i]
				if tx.To == "" || r.P(1, 3) {
					continue
				}
				for _, a := range []string{tx.From, tx.To, hxu(uint64(1 + r.Intn(9))), contractAddr(r.Intn(3))} {
					if r.P(2, 3) {
						t := AccessTuple{Addr: a}
						for k := 0; k < r.Intn(3); k++ {
							t.Slots = append(t.Slots, genSlot(r))
						}
						tx.AL = append(tx.AL, t)
					}
				}
			}
		default:
			sc.TracerCfg = pick(r, nativeTracerCfgs[sc.Tracer])
		}
		if r.P(1, 8) {
			// a sender paying itself: sender and recipient are one account in the tracer's books
			for i := range sc.Execs[0].Txs {
				if tx := &sc.Execs[0].Txs[i]; tx.Kind == "call" {
					tx.To = tx.From
					tx.Value = hxu(uint64(1 + r.Intn(500)))
					return sc
				}
			}
		}
		if (sc.Tracer == "callTracer" || sc.Tracer == "flatCallTracer" || sc.Tracer == "muxTracer" || sc.Tracer == "prestateTracer") && r.Bool() {
			// structured call trees (logs before calls, failing frames above succeeding ones, creates,
			// self-destructs) exercise the nesting logic of the call-type tracers far more than random
			// programs; nothing is bound and only standard opcodes are used, so upstream runs them too
			t := genTreeScenario(seed, treeOpts{prop: "C18", bindProb: 0, multiTx: true})
			t.Profile, t.Tracer, t.TracerCfg = "tracer", sc.Tracer, sc.TracerCfg
			for i := range t.Execs[0].Txs {
				t.Execs[0].Txs[i].SameEVM = false
			}
			return t
		}
		return sc
	}
}

func stripRaw(sc *Scenario) {
	for _, l := range macroLists(sc) {
		var out []Macro
		for _, m := range *l {
			if m.K != "raw" {
				out = append(out, m)
			}
		}
		*l = out
	}
}

type tracerPairResult interface{}

func sutInner(sc *Scenario, tx *Tx, buf *bytes.Buffer) (avm.EVMLogger, func() (string, error)) {
	switch sc.Tracer {
	case "structlog":
		var cfg alogger.Config
		json.Unmarshal([]byte(sc.TracerCfg), &cfg)
		t := alogger.NewStructLogger(&cfg)
		return t, func() (string, error) { b, err := t.GetResult(); return string(b), err }
	case "jsonlog":
		var cfg alogger.Config
		json.Unmarshal([]byte(sc.TracerCfg), &cfg)
		t := alogger.NewJSONLogger(&cfg, buf)
		return t, func() (string, error) { return buf.String(), nil }
	case "accesslist":
		ev := chainConfig(sc.Fork, sc.Block)
		rules := ev.Rules(sutBlockCtx(sc).BlockNumber, isMerge(sc.Fork), sc.Block.Time)
		// the transaction's own list is the prior list (the eth_createAccessList iteration)
		t := alogger.NewAccessListTracer(accessList(tx.AL), addr(tx.From), addr(tx.To), avm.ActivePrecompiles(rules))
		return t, func() (string, error) { b, err := json.Marshal(t.AccessList()); return string(b), err }
	default:
		var raw json.RawMessage
		if sc.TracerCfg != "" {
			raw = json.RawMessage(sc.TracerCfg)
		}
		t, err := atracers.DefaultDirectory.New(sc.Tracer, &atracers.Context{}, raw)
		if err != nil {
			panic(harnessErr("sut tracer " + sc.Tracer + ": " + err.Error()))
		}
		return t, func() (string, error) { b, err := t.GetResult(); return string(b), err }
	}
}

func refInner(sc *Scenario, tx *Tx, buf *bytes.Buffer) (evm.EVMLogger, func() (string, error)) {
	switch sc.Tracer {
	case "structlog":
		var cfg elogger.Config
		json.Unmarshal([]byte(sc.TracerCfg), &cfg)
		t := elogger.NewStructLogger(&cfg)
		return t, func() (string, error) { b, err := t.GetResult(); return string(b), err }
	case "jsonlog":
		var cfg elogger.Config
		json.Unmarshal([]byte(sc.TracerCfg), &cfg)
		t := elogger.NewJSONLogger(&cfg, buf)
		return t, func() (string, error) { return buf.String(), nil }
	case "accesslist":
		ev := chainConfig(sc.Fork, sc.Block)
		rules := ev.Rules(refBlockCtx(sc).BlockNumber, isMerge(sc.Fork), sc.Block.Time)
		t := elogger.NewAccessListTracer(accessList(tx.AL), addr(tx.From), addr(tx.To), evm.ActivePrecompiles(rules))
		return t, func() (string, error) { b, err := json.Marshal(t.AccessList()); return string(b), err }
	default:
		var raw json.RawMessage
		if sc.TracerCfg != "" {
			raw = json.RawMessage(sc.TracerCfg)
		}
		t, err := etracers.DefaultDirectory.New(sc.Tracer, &etracers.Context{}, raw)
		if err != nil {
			panic(harnessErr("ref tracer " + sc.Tracer + ": " + err.Error()))
		}
		return t, func() (string, error) { b, err := t.GetResult(); return string(b), err }
	}
}

func c18Tracers(sc *Scenario, st *Stats) []Violation {
	var vs []Violation
	sl, rl := NewLog(), NewLog()
	sut := NewSutEnv(sc, 0, sl, true)
	ref := NewRefEnv(sc, 0, rl, true)
	var sres, rres []func() (string, error)
	sut.InnerTracer = func(i int) (avm.EVMLogger, interface{}) {
		t, get := sutInner(sc, &sc.Execs[0].Txs[i], &bytes.Buffer{})
		sres = append(sres, get)
		return t, nil
	}
	ref.InnerTracer = func(i int) (evm.EVMLogger, interface{}) {
		t, get := refInner(sc, &sc.Execs[0].Txs[i], &bytes.Buffer{})
		rres = append(rres, get)
		return t, nil
	}
	sut.RunAll()
	ref.RunAll()
	st.Steps += sl.Len()
	h, steps := shapeHash(sl)
	st.Shape(h^mix64(uint64(len(sc.Tracer))<<8^uint64(len(sc.TracerCfg))), steps >= 5)
	st.Probes["tracer-"+sc.Tracer]++
	for _, r := range sut.Results {
		if r.Panic != "" {
			vs = append(vs, Violation{Prop: "C18", Rule: "C18.tracer", Sig: sc.Tracer + "/panic", Msg: fmt.Sprintf("%s panicked at %s: %s", sc.Tracer, r.PanicSite, r.Panic)})
			return vs
		}
	}
	for i := range sres {
		if i >= len(rres) {
			break
		}
		a, ea := sres[i]()
		b, eb := rres[i]()
		if (ea == nil) != (eb == nil) {
			vs = append(vs, Violation{Prop: "C18", Rule: "C18.tracer", Sig: sc.Tracer + "/error", Msg: fmt.Sprintf("%s: result error %v, upstream %v", sc.Tracer, ea, eb)})
			continue
		}
		if sc.Tracer == "accesslist" {
			// the tracer builds its list from a map on both sides: compare as sets
			a, b = canonAccessList(a), canonAccessList(b)
		}
		if a != b {
			vs = append(vs, Violation{Prop: "C18", Rule: "C18.tracer", Sig: sc.Tracer, Msg: fmt.Sprintf("%s %s tx %d: output differs from the upstream original: %s", sc.Tracer, sc.TracerCfg, i, strDiff(a, b))})
		}
	}
	return vs
}

func canonAccessList(s string) string {
	var al []struct {
		Address     string   `json:"address"`
		StorageKeys []string `json:"storageKeys"`
	}
	if json.Unmarshal([]byte(s), &al) != nil {
		return s
	}
	var lines []string
	for _, t := range al {
		ks := append([]string{}, t.StorageKeys...)
		sort.Strings(ks)
		lines = append(lines, t.Address+":"+strings.Join(ks, ","))
	}
	sort.Strings(lines)
	return strings.Join(lines, ";")
}

func strDiff(a, b string) string {
	n := len(a)
	if len(b) < n {
		n = len(b)
	}
	i := 0
	for i < n && a[i] == b[i] {
		i++
	}
	lo := i - 60
	if lo < 0 {
		lo = 0
	}
	ha, hb := i+100, i+100
	if ha > len(a) {
		ha = len(a)
	}
	if hb > len(b) {
		hb = len(b)
	}
	return fmt.Sprintf("at byte %d: ...%s  |upstream| ...%s", i, a[lo:ha], b[lo:hb])
}

func c18Run(sc *Scenario, st *Stats) []Violation {
	switch sc.Profile {
	case "balance":
		return treeCheck("C18", func(tier string) enumOpts {
			if tier == "thorough" {
				return enumOpts{f2: true, f3: -1, cuts: 4}
			}
			return enumOpts{f2: true, f2one: true, f3: 1, cuts: 1}
		})(sc, st)
	case "tracer":
		return c18Tracers(sc, st)
	default:
		return diffCheck("C18")(sc, st)
	}
}

func init() {
	register(&Check{ID: "C18", Level: "exploration",
		Rule:   "three profiles: stream (standard scenarios, all callbacks compared argument by argument with the reference incl. stack, memory hash, return data, under gas cuts), balance (call trees with every join-point firing failed in turn, re-entrant calls from Aspects; push-down monitor on start/end and enter/exit), tracer (struct logger with random config bits, JSON logger, access-list, prestate diff on/off, 4byte, call only-top/with-log, flat-call parity/include-precompiles, mux, noop: port on the system under test, upstream original on the reference, outputs compared as JSON text); distinct = hash of step sequence x tracer configuration",
		Assume: []string{"upstream tracers are the reference", "tracer profile uses strict programs: names of opcode bytes undefined in v1.12.0 differ by design (the fork knows more opcodes)"},
		Real:   []string{"/repo/vm debug-tracer call sites", "/repo/tracers/logger, /repo/tracers/native (ports)", "go-ethereum v1.12.0 eth/tracers/logger, eth/tracers/native (originals)"},
		Stub:   []string{"recorder multiplexes to the tracer under test"}, Gen: genC18, Run: c18Run})
}

var _ = types.EmptyRootHash
