package main

// treeRun executes one call-tree scenario on the system under test with every online
// monitor attached and evaluates the history oracles of C04-C08, C10, C13 (and the
// bookkeeping part of C03/C18). Each property's check keeps its own rules.

import (
	"bytes"
	"fmt"
	"math/big"
	"sort"
	"strings"

	acore "github.com/artela-network/artela-evm/core"
	avm "github.com/artela-network/artela-evm/vm"
	actypes "github.com/artela-network/aspect-core/types"
	"github.com/ethereum/go-ethereum/common"
	"github.com/holiman/uint256"
	"google.golang.org/protobuf/proto"
)

type TreeOut struct {
	Sc      *Scenario
	L       *Log
	Env     *SutEnv
	H       *History
	V       []Violation
	Firings []int // provider events per tx
	Steps   int
	Journal []journalObs
}

func (t *TreeOut) add(prop, rule, sig string, seq int, format string, a ...interface{}) {
	t.V = append(t.V, Violation{Prop: prop, Rule: rule, Sig: sig, Seq: seq, Msg: fmt.Sprintf(format, a...)})
}

func (t *TreeOut) For(prop string) []Violation {
	var out []Violation
	for _, v := range t.V {
		if v.Prop == prop {
			out = append(out, v)
		}
	}
	return out
}

type mutRec struct {
	seq  int
	name string
	a    common.Address
	key  []byte
	pre  []byte
	post []byte
}

func (m *mutRec) loc() string { return m.name + "|" + string(m.a[:]) + "|" + string(m.key) }

func readLoc(env *SutEnv, m *mutRec) []byte {
	st := env.St
	switch m.name {
	case "Balance", "CreateAccount":
		return st.GetBalance(m.a).Bytes()
	case "Nonce":
		return u64b(st.GetNonce(m.a))
	case "Code":
		h := st.GetCodeHash(m.a)
		return h[:]
	case "State":
		h := st.GetState(m.a, common.BytesToHash(m.key))
		return h[:]
	case "Transient":
		h := st.GetTransientState(m.a, common.BytesToHash(m.key))
		return h[:]
	case "Suicide":
		return bb(st.HasSuicided(m.a))
	}
	return nil
}

var emptyCodeHashB = common.HexToHash("0xc5d2460186f7233c927e7db2dcc703c0e500b653ca82273b7bfad8045d85a470").Bytes()

// sameImage compares stored images; an absent account's code hash (zero) equals the empty code hash.
func sameImage(name string, a, b []byte) bool {
	if name == "Code" {
		z := make([]byte, 32)
		if bytes.Equal(a, z) {
			a = emptyCodeHashB
		}
		if bytes.Equal(b, z) {
			b = emptyCodeHashB
		}
	}
	return bytes.Equal(a, b)
}

type scopeRec struct {
	snapSeq  int // start of the rollback scope (seq of the issuing instruction / host event)
	snapLogs int
	enterSeq int
	cause    string
	creator  common.Address
	isCreate bool
}

func causeOf(errText string, injected string) string {
	if injected != "" {
		return injected
	}
	switch {
	case errText == "":
		return "ok"
	case errText == "execution reverted":
		return "evm:revert"
	case errText == "out of gas":
		return "evm:oog"
	case strings.HasPrefix(errText, "invalid opcode"):
		return "evm:invalid"
	case strings.HasPrefix(errText, "stack"):
		return "evm:stack"
	}
	return "evm:other"
}

func treeRun(sc *Scenario) *TreeOut {
	t := &TreeOut{Sc: sc, L: NewLog()}
	env := NewSutEnv(sc, 0, t.L, true)
	t.Env = env
	rulesPre := map[common.Address]bool{}
	env.Rec.Annot = func(e *Ev) {
		if env.EVM != nil && len(rulesPre) == 0 {
			ev := env.EVM
			rules := ev.ChainConfig().Rules(ev.Context.BlockNumber, ev.Context.Random != nil, ev.Context.Time)
			for _, a := range avm.ActivePrecompiles(rules) {
				rulesPre[a] = true
			}
		}
		if !e.Create {
			e.N = uint64(env.St.GetCodeSize(e.To))
			if rulesPre[e.To] {
				e.N2 = 1
			}
		}
		if env.EVM != nil && !env.EVM.IsExecuteJP {
			e.Name = "jpoff"
		}
	}
	// C13 seam: wrap the host transfer function
	env.WrapBlock = func(bc *avm.BlockContext) {
		bc.Transfer = func(db avm.StateDB, from, to common.Address, amount *big.Int) {
			fb, tb := env.St.GetBalance(from).Bytes(), env.St.GetBalance(to).Bytes()
			acore.Transfer(db, from, to, amount)
			fa, ta := env.St.GetBalance(from).Bytes(), env.St.GetBalance(to).Bytes()
			t.L.Add(Ev{Ex: 0, K: evTransfer, From: from, To: to, Val: amount.Bytes(), Key: fb, Val2: tb, Req: fa, Out: ta})
		}
	}

	if c20Arm {
		env.DB.ReadBudget = readBudget(0)
		allocOpen, allocStart, allocSeq := false, uint64(0), 0
		var allocOp byte
		var allocCost uint64
		var allocMem int
		closeAlloc := func() {
			if !allocOpen {
				return
			}
			allocOpen = false
			if d := memTotalAlloc() - allocStart; d > allocBudget(allocCost, allocMem) {
				c20Violations = append(c20Violations, Violation{Prop: "C20", Rule: "C20.alloc", Sig: siteOfOp(allocOp), Seq: allocSeq,
					Msg: fmt.Sprintf("instruction %s (cost %d gas, memory %d bytes) made the VM allocate %d bytes", siteOfOp(allocOp), allocCost, allocMem, d)})
			}
		}
		env.Rec.OnStep = func(e *Ev) {
			closeAlloc()
			env.DB.Reads = 0
			env.DB.ReadBudget = readBudget(e.Cost)
			if c20Alloc && e.Err == "" && (isJournalOp(e.Op) || isCallOp(e.Op) || e.Op == 0x37 || e.Op == 0x39 || e.Op == 0x3c || e.Op == 0x3e || e.Op == 0x5e || e.Op == 0x20) {
				allocOpen, allocStart, allocSeq, allocOp, allocCost, allocMem = true, memTotalAlloc(), e.Seq, e.Op, e.Cost, e.MemLen
			}
		}
		t.L.onEv = append(t.L.onEv, func(e *Ev) {
			if e.K == evTxDone {
				closeAlloc()
			}
			if e.K == evTxBegin {
				env.DB.Reads = 0
				env.DB.ReadBudget = readBudget(0)
			}
		})
	}

	// ---- online monitors ----
	var muts []mutRec
	var scopes []scopeRec
	pendSnap, pendLogs := -1, 0
	// the rollback scope of a frame starts at the instruction (or host event) that issued it -
	// independently of where the system under test takes its snapshot
	issueSeq, issueLogs, logCount := -1, 0, 0
	injected := ""
	jpFailed := ""
	nodeHash := map[*avm.Call]uint64{}
	nodeLen := map[*avm.Call]int{}
	var curTree *avm.CallTree
	t.L.onEv = append(t.L.onEv, func(e *Ev) {
		switch e.K {
		case evStep:
			if isJournalOp(e.Op) && e.Err == "" {
				t.captureJournal(e)
			}
			if isCallOp(e.Op) && e.Err == "" {
				issueSeq, issueLogs = e.Seq, logCount
			}
		case evHost:
			if e.Name == "top" || e.Name == "staticCall" {
				issueSeq, issueLogs = e.Seq, logCount
			}
		case evTxBegin:
			scopes = scopes[:0]
			pendSnap = -1
			issueSeq = -1
			logCount = len(env.St.Logs())
			injected = ""
			jpFailed = ""
		case evInject:
			if strings.HasPrefix(e.Name, "provider-") || strings.HasPrefix(e.Name, "aspect-") {
				injected = "jp:" + e.Name
			}
			if strings.HasPrefix(e.Name, "provider-") {
				jpFailed = e.Name
			}
		case evAspectExit:
			if e.Err != "" {
				jpFailed = "aspect-exit-error"
				if e.Err == "out of gas" {
					jpFailed = "aspect-exit-oog"
				}
			}
		case evDB:
			switch e.Name {
			case "Snapshot":
				pendSnap, pendLogs = e.Seq, int(e.N2)
			case "Log":
				logCount = int(e.N)
			case "Revert":
				logCount = int(e.N2)
			default:
				muts = append(muts, mutRec{seq: e.Seq, name: e.Name, a: e.From, key: e.Key, pre: e.Val, post: e.Val2})
			}
		case evStart, evEnter:
			if e.Typ == 0xff {
				scopes = append(scopes, scopeRec{snapSeq: -1, enterSeq: e.Seq})
			} else {
				sr := scopeRec{snapSeq: issueSeq, snapLogs: issueLogs, enterSeq: e.Seq}
				if issueSeq < 0 {
					sr.snapSeq, sr.snapLogs = pendSnap, pendLogs
				}
				if e.Create || e.Typ == 0xf0 || e.Typ == 0xf5 {
					// the creator's nonce increment is the one effect of a create that survives its failure
					sr.creator, sr.isCreate = e.From, true
				}
				scopes = append(scopes, sr)
				pendSnap, issueSeq = -1, -1
			}
		case evEnd, evExit:
			if len(scopes) == 0 {
				return
			}
			s := scopes[len(scopes)-1]
			scopes = scopes[:len(scopes)-1]
			if e.Err == "" && jpFailed != "" && s.snapSeq >= 0 {
				// C04.jpfail: a failure reported by this frame's join point must end the frame in an error
				t.add("C04", "C04.jpfail", jpFailed, e.Seq, "a join point of the frame entered at seq %d failed (%s) but the frame closed without error: its effects stay and the caller observes success", s.enterSeq, jpFailed)
			}
			jpFailed = ""
			if e.Err != "" && s.snapSeq >= 0 {
				cause := causeOf(e.Err, injected)
				// C04.restore: every location touched inside the failed frame's scope holds its pre-image
				seen := map[string]bool{}
				for i := range muts {
					m := &muts[i]
					if m.seq < s.snapSeq || seen[m.loc()] {
						continue
					}
					if s.isCreate && m.name == "Nonce" && m.a == s.creator {
						continue
					}
					seen[m.loc()] = true
					now := readLoc(env, m)
					if !sameImage(m.name, now, m.pre) {
						t.add("C04", "C04.restore", cause+"/"+m.name, e.Seq,
							"frame entered at seq %d closed with error %q (%s) but %s of %x key %x holds %x instead of its pre-image %x", s.enterSeq, e.Err, cause, m.name, m.a, m.key, now, m.pre)
					}
				}
				if nl := len(env.St.Logs()); nl != s.snapLogs {
					t.add("C04", "C04.restore", cause+"/Logs", e.Seq, "frame entered at seq %d closed with error %q but %d logs remain (scope opened with %d)", s.enterSeq, e.Err, nl, s.snapLogs)
				}
			}
			injected = ""
		}
		// C08.alias: recorded call data must never change after the node was created
		if env.EVM != nil {
			ct := env.EVM.Tracer().CallTree()
			if ct != curTree {
				curTree = ct
				nodeHash = map[*avm.Call]uint64{}
				nodeLen = map[*avm.Call]int{}
			}
			for i := uint64(0); ; i++ {
				c := ct.FindCall(i)
				if c == nil {
					break
				}
				hv := h64(c.Data)
				if old, ok := nodeHash[c]; ok {
					if old != hv || nodeLen[c] != len(c.Data) {
						t.add("C08", "C08.alias", "data-changed-after-record", e.Seq, "call-tree node %d: recorded calldata changed after the call was recorded (event %s at seq %d): now %x", i, e.K, e.Seq, c.Data)
						nodeHash[c] = hv
						nodeLen[c] = len(c.Data)
					}
				} else {
					nodeHash[c] = hv
					nodeLen[c] = len(c.Data)
				}
			}
		}
	})

	env.OnTxEnd = func(i int, r *TxResult) {
		t.checkTree(i, r)
	}
	env.RunAll()
	t.L.onEv = nil
	for _, s := range drainSwallowed() {
		t.add("C03", "C03.swallowed-panic", swallowedSite(s), t.L.Len(), "panic inside a join point swallowed by aspect-core: %s", tail(s, 1500))
	}
	t.H = BuildHistory(t.L.Evs, 0)
	for _, p := range t.H.Problems {
		t.add("C18", "C18.balance", "unbalanced-callbacks", 0, "debug-tracer callbacks not balanced: %s", p)
	}
	for i := range env.Results {
		n := 0
		for k := env.Results[i].EvFrom; k < env.Results[i].EvTo; k++ {
			if t.L.Evs[k].K == evProvider {
				n++
			}
			if t.L.Evs[k].K == evStep {
				t.Steps++
			}
		}
		t.Firings = append(t.Firings, n)
		if env.Results[i].Panic != "" {
			t.add("C03", "C03.panic", env.Results[i].PanicSite, env.Results[i].EvTo, "tx %d panicked: %s", i, env.Results[i].Panic)
		}
	}
	t.checkPreserve(muts)
	t.checkSeen()
	t.checkGrammar()
	t.checkGas()
	t.checkAttempts()
	t.checkBalances()
	t.checkJournal()
	return t
}

func swallowedSite(s string) string {
	lines := strings.Split(s, "\n")
	afterPanic := false
	for _, l := range lines {
		tl := strings.TrimSpace(l)
		if strings.HasPrefix(tl, "panic(") {
			afterPanic = true
			continue
		}
		if !afterPanic || !strings.HasPrefix(tl, "/") || strings.Contains(tl, "/runtime/") {
			continue
		}
		if strings.HasPrefix(tl, "/verif/") {
			if strings.Contains(tl, "simdb.go") {
				return "read-budget-inside-join-point" // the C20 watchdog fired inside a re-entrant call
			}
			panic(harnessErr("panic raised inside harness code (swallowed by aspect-core): " + tl + "\n" + s))
		}
		break
	}
	for i, l := range lines {
		tl := strings.TrimSpace(l)
		if strings.HasPrefix(tl, repoPrefix) && i > 0 {
			fn := strings.TrimSpace(lines[i-1])
			if p := strings.LastIndex(fn, "("); p > 0 {
				fn = fn[:p]
			}
			if p := strings.LastIndex(fn, "/"); p >= 0 {
				fn = fn[p+1:]
			}
			return fn
		}
	}
	return "unknown"
}

// ---------------------------------------------------------------------------------
// C07 (+ C03 bookkeeping): tree well-formedness after every top-level return

func (t *TreeOut) checkTree(txi int, r *TxResult) {
	env := t.Env
	ct := env.EVM.Tracer().CallTree()
	seq := t.L.Len()
	if cur := ct.Current(); cur != nil {
		t.add("C07", "C07.open", "current-not-nil", seq, "after tx %d returned (class %s) the call tree still has an open call (index %d)", txi, r.Class, cur.Index)
		t.add("C03", "C03.bookkeeping", "calltree-cursor", seq, "after tx %d returned the call-tree cursor is not at rest (index %d)", txi, cur.Index)
	}
	var nodes []*avm.Call
	for i := uint64(0); ; i++ {
		c := ct.FindCall(i)
		if c == nil {
			break
		}
		nodes = append(nodes, c)
	}
	if len(nodes) == 0 {
		if r.Panic == "" {
			t.add("C07", "C07.dense", "no-nodes", seq, "tx %d returned but the call tree is empty", txi)
		}
		return
	}
	if ct.Root() != nodes[0] {
		t.add("C07", "C07.root", "root-not-node0", seq, "Root() is not the node with index 0")
	}
	// no node beyond the dense range: every reachable node must be one of nodes[]
	inSet := map[*avm.Call]bool{}
	for _, c := range nodes {
		inSet[c] = true
	}
	for i, c := range nodes {
		if c.Index != uint64(i) {
			t.add("C07", "C07.lookup", "index-mismatch", seq, "FindCall(%d) returned a node carrying index %d", i, c.Index)
		}
		if c.Parent != nil {
			if !inSet[c.Parent] {
				t.add("C07", "C07.parent", "foreign-parent", seq, "node %d has a parent that is not in the tree", i)
				continue
			}
			if c.Parent.Index >= c.Index {
				t.add("C07", "C07.parent", "parent-not-smaller", seq, "node %d has parent %d (not smaller)", i, c.Parent.Index)
			}
			cnt := 0
			for _, k := range c.Parent.Children {
				if k == c {
					cnt++
				}
			}
			if cnt != 1 {
				t.add("C07", "C07.children", "not-once-in-parent", seq, "node %d appears %d times among the children of its parent %d", i, cnt, c.Parent.Index)
			}
			if ct.ParentOf(uint64(i)) != c.Parent {
				t.add("C07", "C07.lookup", "parentof", seq, "ParentOf(%d) disagrees with the node's Parent field", i)
			}
		} else if ct.ParentOf(uint64(i)) != nil {
			t.add("C07", "C07.lookup", "parentof", seq, "ParentOf(%d) is set but the node has no parent", i)
		}
		last := int64(-1)
		for _, k := range c.Children {
			if !inSet[k] {
				t.add("C07", "C07.children", "foreign-child", seq, "node %d lists a child that is not in the tree", i)
				continue
			}
			if k.Parent != c {
				t.add("C07", "C07.children", "child-parent-mismatch", seq, "node %d lists child %d whose parent is another node", i, k.Index)
			}
			if int64(k.Index) <= last {
				t.add("C07", "C07.children", "children-not-increasing", seq, "children of node %d are not in increasing index order", i)
			}
			last = int64(k.Index)
		}
		kids := ct.ChildrenOf(uint64(i))
		if len(kids) != len(c.Children) {
			t.add("C07", "C07.lookup", "childrenof", seq, "ChildrenOf(%d) disagrees with the node's Children field", i)
		}
	}
}

// ---------------------------------------------------------------------------------
// C04.preserve / C04.seen

func frameChainOK(f *Frame) bool {
	for ; f != nil; f = f.Parent {
		if f.Closed && f.Err != "" {
			return false
		}
		if !f.Closed {
			return false
		}
	}
	return true
}

func (t *TreeOut) checkPreserve(muts []mutRec) {
	// Only meaningful for the last transaction (the StateDB has moved on for earlier ones)
	if len(t.Env.Results) == 0 {
		return
	}
	last := &t.Env.Results[len(t.Env.Results)-1]
	if last.Panic != "" || last.Budget {
		return
	}
	// a create that is refused up front and hands its whole gas back (depth, balance, nonce
	// limit - not a collision, which burns the gas after the nonce was taken) has failed:
	// nothing it did on the way may stay, the creator's nonce included
	for _, a := range t.H.Attempts {
		if a.Tx != len(t.Env.Results)-1 || a.Top || a.Frame != nil || (a.Op != 0xf0 && a.Op != 0xf5) || !a.HaveBack || a.OutSeq == 0 || a.Back != a.Supplied {
			continue
		}
		if a.Flag == nil || !a.Flag.IsZero() {
			continue
		}
		for i := range muts {
			m := &muts[i]
			if m.seq > a.StepSeq && m.seq < a.OutSeq && !bytes.Equal(m.pre, m.post) {
				t.add("C04", "C04.refused", m.name, m.seq, "CREATE at seq %d was refused (flag 0, all %d gas handed back) yet changed %s of %x from %x to %x", a.StepSeq, a.Back, m.name, m.a, m.pre, m.post)
			}
		}
	}
	// innermost frame containing seq, using rollback scopes [SnapSeq, ExitSeq]
	var frames []*Frame
	for _, f := range t.H.Frames {
		if f.Tx == len(t.Env.Results)-1 && f.SnapSeq >= 0 && f.Closed {
			frames = append(frames, f)
		}
	}
	owner := func(seq int) *Frame {
		var best *Frame
		for _, f := range frames {
			if seq > f.SnapSeq && seq < f.ExitSeq {
				if best == nil || f.SnapSeq > best.SnapSeq {
					best = f
				}
			}
		}
		return best
	}
	type want struct {
		val  []byte
		m    *mutRec
		from string
	}
	exp := map[string]*want{}
	var order []string
	for i := range muts {
		m := &muts[i]
		if m.seq < last.EvFrom || m.seq >= last.EvTo {
			continue
		}
		w, ok := exp[m.loc()]
		if !ok {
			w = &want{val: m.pre, m: m, from: "initial value"}
			exp[m.loc()] = w
			order = append(order, m.loc())
		}
		f := owner(m.seq)
		if f != nil && (f.Create || f.Typ == 0xf0 || f.Typ == 0xf5) && m.name == "Nonce" && m.a == f.From && m.seq < f.EnterSeq {
			f = f.Parent // the creator's nonce increment is not part of the create frame's rollback scope
		}
		committed := true
		for g := f; g != nil; g = g.Parent {
			if g.SnapSeq >= 0 && g.Err != "" {
				committed = false
			}
		}
		if committed {
			w.val = m.post
			w.m = m
			w.from = fmt.Sprintf("mutation at seq %d", m.seq)
		}
	}
	// the StateDB was finalised by IntermediateRoot after the tx: self-destructed accounts are gone
	for _, k := range order {
		w := exp[k]
		if t.Env.St.HasSuicided(w.m.a) || !t.Env.St.Exist(w.m.a) {
			continue
		}
		now := readLoc(t.Env, w.m)
		if w.m.name == "Suicide" || w.m.name == "Transient" {
			continue
		}
		if !sameImage(w.m.name, now, w.val) {
			t.add("C04", "C04.preserve", w.m.name, last.EvTo, "after the transaction %s of %x key %x holds %x but the last effect made outside any failed frame (%s) left %x",
				w.m.name, w.m.a, w.m.key, now, w.from, w.val)
		}
	}
}

func (t *TreeOut) checkSeen() {
	for _, a := range t.H.Attempts {
		if a.Top || !a.HaveFlag {
			continue
		}
		failed := a.Frame == nil || a.Frame.Err != ""
		if a.Frame == nil && (a.Op == 0xf1 || a.Op == 0xf2 || a.Op == 0xf4 || a.Op == 0xfa) {
			// no frame was entered: either refused (flag 0) or a call to a non-existent account
			// with tracer pinged - those always produce an enter event, so this is a refusal
			failed = true
		}
		if failed != a.Flag.IsZero() {
			cause := "refused"
			if a.Frame != nil {
				cause = causeOf(a.Frame.Err, "")
			}
			t.add("C04", "C04.seen", fmt.Sprintf("op%02x/%s", a.Op, cause), a.StepSeq, "attempt at seq %d (op %02x): frame failed=%v but the caller observed flag %s", a.StepSeq, a.Op, failed, a.Flag.Hex())
		}
	}
}

// ---------------------------------------------------------------------------------
// C05 grammar and payloads

func lastStepGasLeft(f *Frame) (uint64, bool) {
	if len(f.Steps) == 0 {
		return 0, false
	}
	s := f.Steps[len(f.Steps)-1]
	switch s.Op {
	case 0x00, 0xf3, 0xfd, 0xff:
		if s.Err == "" {
			return s.Gas - s.Cost, true
		}
	}
	return 0, false
}

func (t *TreeOut) checkGrammar() {
	idx := t.expectedIndices()
	for _, f := range t.H.Frames {
		if f.SelfDes || !f.Closed {
			continue
		}
		wantJP := f.Typ == 0xf1 && !f.Create && f.JPOn && f.CodeLen > 0 && !f.IsPre
		var pre, post []*Ev
		for _, p := range f.Prov {
			if p.Name == string(actypes.PRE_CONTRACT_CALL_METHOD) {
				pre = append(pre, p)
			} else if p.Name == string(actypes.POST_CONTRACT_CALL_METHOD) {
				post = append(post, p)
			} else {
				t.add("C05", "C05.kind", "unknown-pointcut", p.Seq, "provider asked for unexpected point cut %q", p.Name)
			}
		}
		kind := fmt.Sprintf("typ%02x", f.Typ)
		if !wantJP {
			if len(f.Prov) > 0 {
				why := "other frame kind"
				switch {
				case f.Typ == 0xf1 && !f.JPOn:
					why = "join points off"
				case f.Typ == 0xf1 && f.IsPre:
					why = "precompile"
				case f.Typ == 0xf1 && f.CodeLen == 0:
					why = "code-less"
				}
				t.add("C05", "C05.none", kind+"/"+why, f.Prov[0].Seq, "join point fired for a frame that must not have one (%s, type %02x, to %x)", why, f.Typ, f.To)
			}
			continue
		}
		firstStep, lastStep := -1, -1
		if len(f.Steps) > 0 {
			firstStep, lastStep = f.Steps[0].Seq, f.Steps[len(f.Steps)-1].Seq
		}
		if len(pre) != 1 {
			t.add("C05", "C05.once", "pre-count", f.EnterSeq, "call to %x entered at seq %d: pre-call join point fired %d times", f.To, f.EnterSeq, len(pre))
			continue
		}
		p := pre[0]
		if p.To != f.To {
			t.add("C05", "C05.payload", "pre-contract", p.Seq, "pre join point looked up contract %x for a call to %x", p.To, f.To)
		}
		if firstStep >= 0 && p.Seq > firstStep {
			t.add("C05", "C05.order", "pre-after-first-step", p.Seq, "pre join point fired after the callee's first instruction")
		}
		preFailed := false
		// a pre firing fails when the provider returned an error or an aspect exit carried an error
		injectedHere := map[int]bool{} // provider seq -> a fault was injected at that firing
		for _, pe := range f.Prov {
			if pe.Seq+1 < len(t.L.Evs) && t.L.Evs[pe.Seq+1].K == evInject {
				injectedHere[pe.Seq] = true
				if pe == p && strings.HasPrefix(t.L.Evs[pe.Seq+1].Name, "provider-") {
					preFailed = true
				}
			}
		}
		for _, ao := range f.AspOut {
			isPreJP := actypes.JoinPointRunType(ao.JP) == actypes.JoinPointRunType_PreContractCall
			if isPreJP && ao.Err != "" {
				preFailed = true
			}
			// a join point whose Aspects are harmless and where nothing was injected must not fail by itself
			if ao.Err != "" && ao.Err != "out of gas" {
				var pe *Ev
				if isPreJP {
					pe = p
				} else if len(post) == 1 {
					pe = post[0]
				}
				if pe != nil && !injectedHere[pe.Seq] && t.harmlessAspects(f.To, isPreJP) {
					shape := "calldata"
					if len(f.In) == 0 {
						shape = "empty-calldata"
					}
					t.add("C05", "C05.selffail", shape, ao.Seq, "join point with only no-op Aspects bound failed by itself for a call with %d bytes of calldata: %s", len(f.In), ao.Err)
				}
			}
		}
		if preFailed {
			if len(f.Steps) > 0 {
				t.add("C05", "C05.prefail", "code-ran", f.Steps[0].Seq, "pre join point failed but the callee executed %d instructions", len(f.Steps))
			}
			if len(post) != 0 {
				t.add("C05", "C05.prefail", "post-ran", post[0].Seq, "pre join point failed but the post join point still fired")
			}
			if f.Err == "" {
				t.add("C05", "C05.prefail", "no-error", f.ExitSeq, "pre join point failed but the frame closed without error")
			}
		} else {
			if len(post) != 1 {
				t.add("C05", "C05.once", "post-count", f.EnterSeq, "call to %x entered at seq %d: post-call join point fired %d times", f.To, f.EnterSeq, len(post))
				continue
			}
			q := post[0]
			if q.To != f.To {
				t.add("C05", "C05.payload", "post-contract", q.Seq, "post join point looked up contract %x for a call to %x", q.To, f.To)
			}
			if lastStep >= 0 && q.Seq < lastStep {
				t.add("C05", "C05.order", "post-before-last-step", q.Seq, "post join point fired before the callee's last instruction")
			}
			// LIFO: every child frame lies strictly between pre and post
			for _, k := range f.Kids {
				if k.FromAspect {
					continue
				}
				if k.EnterSeq < p.Seq || k.ExitSeq > q.Seq {
					t.add("C05", "C05.nesting", "child-outside", k.EnterSeq, "nested frame is not enclosed by its caller's pre/post join points")
				}
			}
		}
		// payloads seen by the Aspect logger (only when something is bound)
		want, haveIdx := idx[f]
		for _, ai := range f.AspIn {
			jp := actypes.JoinPointRunType(ai.JP)
			isPre := jp == actypes.JoinPointRunType_PreContractCall
			tag := "post"
			if isPre {
				tag = "pre"
			}
			if ai.From != f.From || ai.To != f.To || !bytes.Equal(ai.In, f.In) || !sameBigP(ai.Value, f.Value) {
				t.add("C05", "C05.payload", tag+"-args", ai.Seq, "%s join point got (from %x, to %x, data %x, value %s) for a call (from %x, to %x, data %x, value %s)",
					tag, ai.From, ai.To, ai.In, bigStr(ai.Value), f.From, f.To, f.In, bigStr(f.Value))
			}
			var from, to, data, value []byte
			var gas, index, block *uint64
			var ret []byte
			var errText *string
			if isPre {
				m := &actypes.PreContractCallInput{}
				if err := (proto.UnmarshalOptions{AllowPartial: true}).Unmarshal(ai.Req, m); err != nil || m.Call == nil {
					t.add("C05", "C05.payload", "pre-request-undecodable", ai.Seq, "pre join point request cannot be decoded: %v", err)
					continue
				}
				from, to, data, value, gas, index = m.Call.From, m.Call.To, m.Call.Data, m.Call.Value, m.Call.Gas, m.Call.Index
				if m.Block != nil {
					block = m.Block.Number
				}
			} else {
				m := &actypes.PostContractCallInput{}
				if err := (proto.UnmarshalOptions{AllowPartial: true}).Unmarshal(ai.Req, m); err != nil || m.Call == nil {
					t.add("C05", "C05.payload", "post-request-undecodable", ai.Seq, "post join point request cannot be decoded: %v", err)
					continue
				}
				from, to, data, value, gas, index = m.Call.From, m.Call.To, m.Call.Data, m.Call.Value, m.Call.Gas, m.Call.Index
				ret, errText = m.Call.Ret, m.Call.Error
				if m.Block != nil {
					block = m.Block.Number
				}
			}
			if !bytes.Equal(from, f.From[:]) || !bytes.Equal(to, f.To[:]) || !bytes.Equal(data, f.In) || new(big.Int).SetBytes(value).Cmp(nz(f.Value)) != 0 {
				t.add("C05", "C05.payload", tag+"-request-fields", ai.Seq, "%s join point request carries from %x to %x data %x value %x; the call has from %x to %x data %x value %s",
					tag, from, to, data, value, f.From, f.To, f.In, bigStr(f.Value))
			}
			if block == nil || *block != t.Sc.Block.Number {
				t.add("C05", "C05.payload", tag+"-block", ai.Seq, "%s join point request carries a wrong block number", tag)
			}
			if haveIdx && (index == nil || *index != uint64(want)) {
				got := int64(-1)
				if index != nil {
					got = int64(*index)
				}
				t.add("C05", "C05.payload", tag+"-index", ai.Seq, "%s join point request carries call index %d; this call is number %d in attempt order", tag, got, want)
			}
			if isPre {
				// first aspect of the group gets the gas handed to the frame
				if ai == firstAsp(f, jp) && (ai.Gas != f.Gas || gas == nil || *gas != f.Gas) {
					t.add("C05", "C05.payload", "pre-gas", ai.Seq, "pre join point got gas %d; the call was given %d", ai.Gas, f.Gas)
				}
			} else {
				if ai == firstAsp(f, jp) {
					if g, ok := lastStepGasLeft(f); ok {
						if ai.Gas != g || gas == nil || *gas != g {
							t.add("C05", "C05.payload", "post-gas", ai.Seq, "post join point got gas %d; the callee finished with %d", ai.Gas, g)
						}
					} else if ai.Gas > f.Gas {
						t.add("C05", "C05.payload", "post-gas", ai.Seq, "post join point got gas %d, more than the call was given (%d)", ai.Gas, f.Gas)
					} else if len(f.Steps) > 0 {
						// the callee halted exceptionally at its last step: what it had left lies between
						// the gas before that instruction and that gas minus the instruction's listed cost
						ls := f.Steps[len(f.Steps)-1]
						lo := uint64(0)
						if ls.Cost <= ls.Gas {
							lo = ls.Gas - ls.Cost
						}
						if ai.Gas > ls.Gas || ai.Gas < lo || gas == nil || *gas != ai.Gas {
							t.add("C05", "C05.payload", "post-gas-after-halt", ai.Seq, "post join point got gas %d (request field %v); the callee halted exceptionally with between %d and %d gas left", ai.Gas, deref64(gas), lo, ls.Gas)
						}
					}
				}
				// actual return data and error of the callee: the callee's last step tells
				if len(f.Steps) > 0 {
					ls := f.Steps[len(f.Steps)-1]
					if ls.Err == "" && (ls.Op == 0xf3 || ls.Op == 0xfd) && len(ls.Stack) >= 2 {
						off, size := ls.Stack[len(ls.Stack)-1], ls.Stack[len(ls.Stack)-2]
						exp := memSlice(padMem(ls.Mem, off.Uint64(), size.Uint64()), off.Uint64(), size.Uint64())
						if !bytes.Equal(exp, ret) && size.Uint64() < 1<<16 {
							t.add("C05", "C05.payload", "post-ret", ai.Seq, "post join point got return data %x; the callee returned %x", ret, exp)
						}
						wantErr := ""
						if ls.Op == 0xfd {
							wantErr = "execution reverted"
						}
						if errText == nil || *errText != wantErr {
							t.add("C05", "C05.payload", "post-error", ai.Seq, "post join point got error %q; the callee ended with %q", deref(errText), wantErr)
						}
					}
				}
			}
		}
	}
}

func padMem(mem []byte, off, size uint64) []byte { return mem }

func deref64(v *uint64) string {
	if v == nil {
		return "<nil>"
	}
	return fmt.Sprint(*v)
}

func deref(s *string) string {
	if s == nil {
		return "<nil>"
	}
	return *s
}

func nz(v *big.Int) *big.Int {
	if v == nil {
		return new(big.Int)
	}
	return v
}

func sameBigP(a, b *big.Int) bool { return nz(a).Cmp(nz(b)) == 0 }

func firstAsp(f *Frame, jp actypes.JoinPointRunType) *Ev {
	for _, a := range f.AspIn {
		if actypes.JoinPointRunType(a.JP) == jp {
			return a
		}
	}
	return nil
}

func lastAspOut(f *Frame, jp actypes.JoinPointRunType) *Ev {
	var l *Ev
	for _, a := range f.AspOut {
		if actypes.JoinPointRunType(a.JP) == jp {
			l = a
		}
	}
	return l
}

// expectedIndices assigns call-tree indices to recorded attempts per EVM instance.
func (t *TreeOut) expectedIndices() map[*Frame]int {
	out := map[*Frame]int{}
	next := 0
	var cur *avm.EVM
	for _, a := range t.H.Attempts {
		if a.Tx < len(t.Env.EVMs) && t.Env.EVMs[a.Tx] != cur {
			cur = t.Env.EVMs[a.Tx]
			next = 0
		}
		if a.Recorded() {
			a.Node = next
			next++
			if a.Frame != nil {
				out[a.Frame] = a.Node
			}
		}
	}
	return out
}

// ---------------------------------------------------------------------------------
// C06 gas equations

func (t *TreeOut) checkGas() {
	for _, f := range t.H.Frames {
		if f.SelfDes || !f.Closed {
			continue
		}
		if f.GasUsed > f.Gas {
			t.add("C06", "C06.bound", fmt.Sprintf("typ%02x", f.Typ), f.ExitSeq, "frame given %d gas reports %d used: it returned more gas than it was given", f.Gas, f.GasUsed)
			continue
		}
		returned := f.Gas - f.GasUsed
		if f.Typ != 0xf1 || f.Create {
			continue
		}
		preOut := lastAspOut(f, actypes.JoinPointRunType_PreContractCall)
		postOut := lastAspOut(f, actypes.JoinPointRunType_PostContractCall)
		if preOut != nil && preOut.Err == "" && f.First != nil {
			if f.First.Gas != preOut.Gas {
				t.add("C06", "C06.pre", "callee-start-gas", f.First.Seq, "pre join point left %d gas but the callee's first instruction sees %d", preOut.Gas, f.First.Gas)
			}
			if preOut.Gas == 0 {
				t.L.Probe("pre-join-point-left-exactly-zero-gas")
			}
		}
		if preOut == nil && f.First != nil && len(f.Prov) > 0 && f.First.Gas != f.Gas {
			t.add("C06", "C06.pre", "callee-start-gas-nobind", f.First.Seq, "nothing bound, call given %d gas but the callee's first instruction sees %d", f.Gas, f.First.Gas)
		}
		if preOut != nil && preOut.Err != "" {
			if preOut.Err == "out of gas" {
				if f.Err != "out of gas" || returned != 0 {
					t.add("C06", "C06.oog", "pre", f.ExitSeq, "pre join point ran out of gas; frame closed with error %q and returned %d gas", f.Err, returned)
				}
			}
		}
		if postOut != nil {
			switch {
			case postOut.Err == "":
				if f.Err == "" || f.Err == "execution reverted" {
					if returned != postOut.Gas {
						t.add("C06", "C06.post", "returned-gas", f.ExitSeq, "post join point left %d gas but the frame returned %d", postOut.Gas, returned)
					}
				}
			case postOut.Err == "out of gas":
				if f.Err != "out of gas" || returned != 0 {
					t.add("C06", "C06.oog", "post", f.ExitSeq, "post join point ran out of gas; frame closed with error %q and returned %d gas", f.Err, returned)
				}
			case postOut.Err != "execution reverted":
				if returned != 0 {
					t.add("C06", "C06.halt", "post", f.ExitSeq, "post join point failed with %q (not a revert) but the frame returned %d gas", postOut.Err, returned)
				}
			}
		}
		// provider failure flavours (F2)
		for _, p := range f.Prov {
			if p.Seq+1 < len(t.L.Evs) {
				in := t.L.Evs[p.Seq+1]
				if in.K == evInject && in.Name == "provider-oog" {
					if f.Err != "out of gas" || returned != 0 {
						t.add("C06", "C06.oog", "provider-"+p.Name, f.ExitSeq, "join point %s failed with the text \"out of gas\"; frame closed with error %q and returned %d gas", p.Name, f.Err, returned)
					}
				}
				if in.K == evInject && in.Name == "provider-generic" && p.Name == string(actypes.POST_CONTRACT_CALL_METHOD) {
					if returned != 0 {
						t.add("C06", "C06.halt", "provider-post", f.ExitSeq, "post join point failed with a generic error but the frame returned %d gas", returned)
					}
				}
			}
		}
	}
	// call-tree nodes carry the same numbers
	idx := t.expectedIndices()
	for f, i := range idx {
		if f.Tx >= len(t.Env.EVMs) || !f.Closed || f.GasUsed > f.Gas {
			continue
		}
		c := t.Env.EVMs[f.Tx].Tracer().CallTree().FindCall(uint64(i))
		if c == nil {
			continue
		}
		if c.Gas == nil || !c.Gas.IsUint64() || c.Gas.Uint64() != f.Gas {
			t.add("C06", "C06.node", "gas", f.EnterSeq, "call-tree node %d records gas %v; the frame was given %d", i, c.Gas, f.Gas)
		}
		if c.RemainingGas != f.Gas-f.GasUsed {
			t.add("C06", "C06.node", "remaining", f.ExitSeq, "call-tree node %d records remaining gas %d; the frame returned %d", i, c.RemainingGas, f.Gas-f.GasUsed)
		}
	}
}

// ---------------------------------------------------------------------------------
// C08: node list = attempt list

func u256Eq(a *uint256.Int, b *uint256.Int) bool {
	if a == nil {
		a = new(uint256.Int)
	}
	if b == nil {
		b = new(uint256.Int)
	}
	return a.Eq(b)
}

func (t *TreeOut) checkAttempts() {
	t.expectedIndices()
	// group by EVM
	byEVM := map[*avm.EVM][]*Attempt{}
	var order []*avm.EVM
	for _, a := range t.H.Attempts {
		if !a.Recorded() || a.Tx >= len(t.Env.EVMs) {
			continue
		}
		e := t.Env.EVMs[a.Tx]
		if _, ok := byEVM[e]; !ok {
			order = append(order, e)
		}
		byEVM[e] = append(byEVM[e], a)
	}
	for _, e := range order {
		atts := byEVM[e]
		ct := e.Tracer().CallTree()
		n := 0
		for ct.FindCall(uint64(n)) != nil {
			n++
		}
		// C07: "every non-top-level node has exactly one parent" - which nodes are top level is
		// known from the history only (several top-level calls on one EVM give several roots)
		for i, a := range atts {
			if i >= n {
				break
			}
			if c := ct.FindCall(uint64(i)); c != nil && !a.Top && c.Parent == nil {
				t.add("C07", "C07.parent", "orphan", a.StepSeq, "node %d was issued by an instruction inside call %d but has no parent in the tree", i, func() int64 {
					if a.Parent != nil {
						return int64(a.Parent.Node)
					}
					return -1
				}())
			}
		}
		// a panicking tx leaves attempts without outcome: compare only when sizes can match
		if n != len(atts) {
			t.add("C08", "C08.count", "node-count", t.L.Len(), "call tree has %d nodes; the step stream shows %d CALL/CREATE/CREATE2 attempts (incl. top level)", n, len(atts))
			continue
		}
		for i, a := range atts {
			c := ct.FindCall(uint64(i))
			kind := fmt.Sprintf("op%02x", a.Op)
			refused := a.Frame == nil
			if refused {
				kind += "/refused"
			}
			if c.From != a.Caller {
				t.add("C08", "C08.field", kind+"/from", a.StepSeq, "node %d: caller %x, attempt made by %x", i, c.From, a.Caller)
			}
			if a.Op == 0xf1 {
				if c.To == nil || *c.To != a.Target {
					t.add("C08", "C08.field", kind+"/to", a.StepSeq, "node %d: target %v, attempt targeted %x", i, c.To, a.Target)
				}
			} else if c.To != nil {
				t.add("C08", "C08.field", kind+"/to", a.StepSeq, "node %d: create recorded with a target", i)
			}
			if !u256Eq(c.Value, a.Value) {
				t.add("C08", "C08.field", kind+"/value", a.StepSeq, "node %d: value %v, attempt carried %v", i, c.Value, a.Value)
			}
			if !bytes.Equal(c.Data, a.Input) && len(a.Input) < 1<<20 {
				t.add("C08", "C08.field", kind+"/data", a.StepSeq, "node %d: data %x, at the moment of the call it was %x", i, c.Data, a.Input)
			}
			// parent
			wantParent := int64(-1)
			if a.Parent != nil {
				wantParent = int64(a.Parent.Node)
			}
			if c.ParentIndex() != wantParent {
				t.add("C08", "C08.nesting", kind, a.StepSeq, "node %d: parent %d, attempt was issued under call %d", i, c.ParentIndex(), wantParent)
			}
			// supplied gas
			if a.Frame != nil {
				if c.Gas == nil || !c.Gas.IsUint64() || c.Gas.Uint64() != a.Frame.Gas {
					t.add("C08", "C08.field", kind+"/gas", a.StepSeq, "node %d: supplied gas %v, frame was entered with %d", i, c.Gas, a.Frame.Gas)
				}
			} else if a.Top {
				if c.Gas == nil || !c.Gas.IsUint64() || c.Gas.Uint64() != a.StepGas {
					t.add("C08", "C08.field", kind+"/gas", a.StepSeq, "node %d: supplied gas %v, entry point was given %d", i, c.Gas, a.StepGas)
				}
			}
			// outcome
			if a.Top {
				if t.Env.Results[a.Tx].Panic != "" {
					continue
				}
				if !bytes.Equal(c.Ret, a.TopRet) || errStr(c.Err) != a.TopErr || c.RemainingGas != a.TopLeft {
					t.add("C08", "C08.outcome", kind+"/top", a.StepSeq, "node %d: outcome (ret %x, err %q, gas %d); entry point returned (ret %x, err %q, gas %d)", i, c.Ret, errStr(c.Err), c.RemainingGas, a.TopRet, a.TopErr, a.TopLeft)
				}
				continue
			}
			if !a.HaveBack {
				continue
			}
			if c.RemainingGas != a.Back {
				t.add("C08", "C08.outcome", kind+"/gas", a.StepSeq, "node %d: leftover gas %d, the caller got %d back", i, c.RemainingGas, a.Back)
			}
			if (c.Err != nil) != a.Flag.IsZero() {
				t.add("C08", "C08.outcome", kind+"/err", a.StepSeq, "node %d: error %q, the caller observed flag %s", i, errStr(c.Err), a.Flag.Hex())
			}
			if a.Frame != nil && a.Frame.Closed {
				if errStr(c.Err) != a.Frame.Err {
					t.add("C08", "C08.outcome", kind+"/errtext", a.StepSeq, "node %d: error %q, the frame closed with %q", i, errStr(c.Err), a.Frame.Err)
				}
				if !bytes.Equal(c.Ret, a.Frame.Out) {
					t.add("C08", "C08.outcome", kind+"/ret", a.StepSeq, "node %d: return data %x, the frame handed back %x", i, c.Ret, a.Frame.Out)
				}
			} else if a.Frame == nil {
				// refused before a frame existed: nothing ran, so everything supplied is handed back
				// (except for an address collision, which forfeits it)
				supplied := a.Back
				if a.Op != 0xf1 {
					supplied = a.Supplied
					if a.Back != 0 && a.Back != supplied {
						t.add("C08", "C08.outcome", kind+"/gas-refused", a.StepSeq, "node %d (refused create): %d gas supplied but %d handed back (neither all nor none)", i, supplied, a.Back)
					}
				}
				if c.Gas == nil || !c.Gas.IsUint64() || c.Gas.Uint64() != supplied {
					t.add("C08", "C08.field", kind+"/gas", a.StepSeq, "node %d (refused): records supplied gas %v; %d was supplied", i, c.Gas, supplied)
				}
			}
		}
	}
}

// ---------------------------------------------------------------------------------
// C13: balance journal vs observations at the Transfer seam

func collapse(vals [][]byte) [][]byte {
	var out [][]byte
	for _, v := range vals {
		if len(out) > 0 && new(big.Int).SetBytes(out[len(out)-1]).Cmp(new(big.Int).SetBytes(v)) == 0 {
			continue
		}
		out = append(out, v)
	}
	return out
}

func (t *TreeOut) checkBalances() {
	t.expectedIndices()
	// transfers happen between the attempt and its frame's enter event: bind each transfer
	// event to the recorded attempt that was opened last before it
	type key struct {
		e *avm.EVM
		a common.Address
		i int
	}
	obs := map[key][][]byte{}
	var keys []key
	addObs := func(k key, v []byte) {
		if _, ok := obs[k]; !ok {
			keys = append(keys, k)
		}
		obs[k] = append(obs[k], v)
	}
	var recAtts []*Attempt
	for _, a := range t.H.Attempts {
		if a.Recorded() {
			recAtts = append(recAtts, a)
		}
	}
	for i := range t.L.Evs {
		e := &t.L.Evs[i]
		if e.K != evTransfer {
			continue
		}
		// innermost recorded attempt opened before this event and not closed: the one whose
		// StepSeq is the largest below e.Seq among attempts whose frame (if any) is entered after e.Seq
		var at *Attempt
		for _, a := range recAtts {
			seq := a.StepSeq
			if a.Top {
				seq = -1
				for k := e.Seq; k >= 0; k-- {
					if t.L.Evs[k].K == evHost && t.L.Evs[k].Name == "top" {
						if t.txOf(k) == a.Tx {
							seq = k
						}
						break
					}
				}
				if seq < 0 {
					continue
				}
			}
			if seq < e.Seq && (a.Frame == nil || a.Frame.EnterSeq > e.Seq) {
				if at == nil || seq > attSeq(at, t) {
					at = a
				}
			}
		}
		if at == nil || at.Tx >= len(t.Env.EVMs) {
			t.add("C13", "C13.harness", "unbound-transfer", e.Seq, "transfer at seq %d could not be bound to an attempt", e.Seq)
			continue
		}
		ev := t.Env.EVMs[at.Tx]
		addObs(key{ev, e.From, at.Node}, e.Key)  // sender before
		addObs(key{ev, e.To, at.Node}, e.Val2)   // recipient before
		addObs(key{ev, e.From, at.Node}, e.Req)  // sender after
		addObs(key{ev, e.To, at.Node}, e.Out)    // recipient after
	}
	// compare per (evm, account)
	type ea struct {
		e *avm.EVM
		a common.Address
	}
	per := map[ea]map[int][][]byte{}
	var eas []ea
	for _, k := range keys {
		x := ea{k.e, k.a}
		if per[x] == nil {
			per[x] = map[int][][]byte{}
			eas = append(eas, x)
		}
		per[x][k.i] = collapse(obs[k])
	}
	for _, x := range eas {
		ch := x.e.Tracer().StateChanges().Balance(x.a)
		if ch == nil {
			t.add("C13", "C13.missing", "no-balance-journal", t.L.Len(), "account %x took part in a transfer but has no balance journal", x.a)
			continue
		}
		got := ch.Changes()
		var idxs []int
		for i := range per[x] {
			idxs = append(idxs, i)
		}
		sort.Ints(idxs)
		for _, i := range idxs {
			want := per[x][i]
			g := got[uint64(i)]
			ok := len(g) == len(want)
			for j := 0; ok && j < len(g); j++ {
				if new(big.Int).SetBytes(g[j]).Cmp(new(big.Int).SetBytes(want[j])) != 0 {
					ok = false
				}
			}
			if !ok {
				t.add("C13", "C13.values", "mismatch", t.L.Len(), "account %x call %d: balance journal %x, balances observed around the transfer %x", x.a, i, g, want)
			}
		}
		for gi := range got {
			if _, ok := per[x][int(gi)]; !ok {
				t.add("C13", "C13.extra", "entry-without-transfer", t.L.Len(), "account %x has balance entries under call %d but no transfer was observed for it", x.a, gi)
			}
		}
	}
	// accounts with a balance journal but no observed transfer at all
	for _, evmI := range uniqEVMs(t.Env.EVMs) {
		for _, ac := range t.Sc.Accounts {
			a := addr(ac.Addr)
			if ch := evmI.Tracer().StateChanges().Balance(a); ch != nil && len(ch.Changes()) > 0 {
				if per[ea{evmI, a}] == nil {
					t.add("C13", "C13.extra", "journal-without-transfer", t.L.Len(), "account %x has a balance journal but never took part in an observed transfer", a)
				}
			}
		}
	}
}

func uniqEVMs(es []*avm.EVM) []*avm.EVM {
	var out []*avm.EVM
	for _, e := range es {
		dup := false
		for _, o := range out {
			if o == e {
				dup = true
			}
		}
		if !dup {
			out = append(out, e)
		}
	}
	return out
}

func (t *TreeOut) txOf(seq int) int {
	for i, r := range t.Env.Results {
		if seq >= r.EvFrom && seq < r.EvTo {
			return i
		}
	}
	return -1
}

func attSeq(a *Attempt, t *TreeOut) int {
	if !a.Top {
		return a.StepSeq
	}
	for i := range t.L.Evs {
		if t.L.Evs[i].K == evHost && t.L.Evs[i].Name == "top" && t.txOf(i) == a.Tx {
			return i
		}
	}
	return -1
}

func min(a, b int) int {
	if a < b {
		return a
	}
	return b
}

// harmlessAspects: every Aspect bound to contract c on that join point is a no-op / returns bytes.
func (t *TreeOut) harmlessAspects(c common.Address, pre bool) bool {
	found := false
	for _, b := range t.Sc.Bindings {
		if addr(b.Contract) != c {
			continue
		}
		if b.Point == "both" || (b.Point == "pre") == pre {
			for _, a := range b.Aspects {
				found = true
				if a.Kind != "noop" && a.Kind != "ret" {
					return false
				}
			}
		}
	}
	return found
}
