package main

// Workload generator: scenarios of standard programs (the C01/C02/C15/C18 family)
// and shared helpers for the other generators.

import (
	"fmt"
	"math/big"

	"github.com/ethereum/go-ethereum/crypto"
)

const (
	eoaA = "0xe0a0000000000000000000000000000000000001"
	eoaB = "0xe0a0000000000000000000000000000000000002"
	// a never-created account and an existing empty-code account
	ghost   = "0xdead00000000000000000000000000000000beef"
	codeless = "0xc0de1e55000000000000000000000000000000aa"
	// an account that exists in the pre-state but is empty (no balance, nonce or code)
	emptyAcct = "0xe3b7000000000000000000000000000000000e3b"
)

func contractAddr(i int) string { return fmt.Sprintf("0xc0de%036x", i+1) }

var two256 = new(big.Int).Lsh(big.NewInt(1), 256)

var boundaryVals = []string{
	"0x0", "0x1", "0x2", "0x1f", "0x20", "0x21", "0xff", "0x100", "0xffff", "0x7fffffffffffffff", "0x8000000000000000",
	"0xffffffffffffffff", "0x10000000000000000", "0xffffffffffffffffffffffffffffffff",
	"0x7fffffffffffffffffffffffffffffffffffffffffffffffffffffffffffffff",
	"0x8000000000000000000000000000000000000000000000000000000000000000",
	"0xffffffffffffffffffffffffffffffffffffffffffffffffffffffffffffffff",
	"0xfffffffffffffffffffffffffffffffffffffffffffffffffffffffffffffffe",
}

func genVal(r *RNG) string {
	switch r.Intn(10) {
	case 0, 1, 2, 3:
		return pick(r, boundaryVals)
	case 4, 5:
		return hxu(uint64(r.Intn(300)))
	case 6:
		return hx(r.Bytes(r.Range(1, 32)))
	case 7:
		return hx(r.Bytes(32))
	case 8:
		return hxu(r.U64())
	default:
		return hxu(uint64(r.Intn(40)))
	}
}

// memory offsets / sizes: mostly small, sometimes at word boundaries, rarely huge
func genOff(r *RNG) string {
	switch r.Intn(12) {
	case 0:
		return pick(r, []string{"0xffffffffffffffff", "0x10000000000000000", "0xffffffffffffffffffffffffffffffffffffffffffffffffffffffffffffffff", "0xffffffff", "0x7fffffffffffffff"})
	case 1:
		return hxu(uint64(r.Intn(5000)))
	case 2, 3:
		return hxu(uint64(32 * r.Intn(12)))
	default:
		return hxu(uint64(r.Intn(0x180)))
	}
}

func genSize(r *RNG) string {
	switch r.Intn(12) {
	case 0:
		return pick(r, []string{"0xffffffffffffffff", "0x10000000000000000", "0xffffffffffffffffffffffffffffffffffffffffffffffffffffffffffffffff", "0x100000", "0x800000", "0x4000000"})
	case 1, 2:
		return "0x0"
	case 3:
		return hxu(uint64(r.Intn(3000)))
	default:
		return hxu(uint64(r.Intn(0x90)))
	}
}

func genSlot(r *RNG) string { return hxu(uint64(r.Intn(6))) }

type genCtx struct {
	fork      string
	nContract int
	strictOps bool // only opcodes valid on the fork
	targets   []string
	cancun    bool
	noCalls   bool
	depth     int
	noIntro   bool // C15: no code introspection, no CREATE2, no raw bytes
	noMcopy   bool
	self      string // address of the contract whose program is being generated ("" unknown)
	blockNum  uint64 // number of the executing block (0 unknown)
	heavy     bool   // a generated program executes ~1000 instructions per frame (stack fill)
	nCreates  int
}

type opAvail struct {
	name string
	from string
}

var arithOps = []opAvail{
	{"ADD", ""}, {"MUL", ""}, {"SUB", ""}, {"DIV", ""}, {"SDIV", ""}, {"MOD", ""}, {"SMOD", ""}, {"ADDMOD", ""}, {"MULMOD", ""},
	{"EXP", ""}, {"SIGNEXTEND", ""}, {"LT", ""}, {"GT", ""}, {"SLT", ""}, {"SGT", ""}, {"EQ", ""}, {"ISZERO", ""}, {"AND", ""},
	{"OR", ""}, {"XOR", ""}, {"NOT", ""}, {"BYTE", ""}, {"SHL", "Constantinople"}, {"SHR", "Constantinople"}, {"SAR", "Constantinople"},
}

var envOps = []opAvail{
	{"ADDRESS", ""}, {"ORIGIN", ""}, {"CALLER", ""}, {"CALLVALUE", ""}, {"CALLDATASIZE", ""}, {"CODESIZE", ""}, {"GASPRICE", ""},
	{"RETURNDATASIZE", "Byzantium"}, {"COINBASE", ""}, {"TIMESTAMP", ""}, {"NUMBER", ""}, {"DIFFICULTY", ""}, {"GASLIMIT", ""},
	{"CHAINID", "Istanbul"}, {"SELFBALANCE", "Istanbul"}, {"BASEFEE", "London"}, {"PC", ""}, {"MSIZE", ""}, {"GAS", ""}, {"PUSH0", "Shanghai"},
}

var envOpsNoCode = func() []opAvail {
	var out []opAvail
	for _, o := range envOps {
		if o.name != "CODESIZE" && o.name != "PC" {
			out = append(out, o)
		}
	}
	return out
}()

func (g *genCtx) ok(o opAvail, r *RNG) bool {
	if o.from == "" || forkAtLeast(g.fork, o.from) {
		return true
	}
	return !g.strictOps && r.P(1, 20)
}

func (g *genCtx) pickOp(r *RNG, ops []opAvail) string {
	for i := 0; i < 20; i++ {
		o := pick(r, ops)
		if g.ok(o, r) {
			return o.name
		}
	}
	return "ADD"
}

func genDst(r *RNG) int {
	if r.P(1, 3) {
		return 0
	}
	if r.P(1, 10) {
		return -(0x30 + r.Intn(4)) // straight into storage: visible in the post-state
	}
	return 1 + r.Intn(0x1c0)
}

func (g *genCtx) target(r *RNG) string {
	switch r.Intn(16) {
	case 0:
		return ghost
	case 1:
		return codeless
	case 2:
		return hxu(uint64(1 + r.Intn(9))) // standard precompile
	case 3:
		return pick(r, []string{eoaB, emptyAcct, emptyAcct})
	case 4:
		return hxu(uint64(r.Intn(20)))
	default:
		return pick(r, g.targets)
	}
}

func (g *genCtx) callGas(r *RNG) string {
	switch r.Intn(6) {
	case 0, 1, 2:
		return "GAS"
	case 3:
		return hxu(uint64(r.Intn(3000)))
	case 4:
		return hxu(uint64(20000 + r.Intn(60000)))
	default:
		if r.Bool() {
			// beyond 64 bits with small low bits: must be capped like any other huge request
			return pick(r, []string{"0x10000000000000000", "0x100000000000003e8", "0x100000000000000000000000000000000", "0x8000000000000000000000000000000000000000000000000000000000000000", "0x1000000000000c350"})
		}
		return genVal(r)
	}
}

func (g *genCtx) callValue(r *RNG) string {
	switch r.Intn(8) {
	case 0, 1:
		return hxu(uint64(1 + r.Intn(1000)))
	case 2:
		return "0xffffffffffffffffffffffff" // more than anyone has
	default:
		return "0x0"
	}
}

func (g *genCtx) genCall(r *RNG) Macro {
	kinds := []opAvail{{"CALL", ""}, {"CALL", ""}, {"CALLCODE", ""}, {"DELEGATECALL", "Homestead"}, {"STATICCALL", "Byzantium"}}
	kind := g.pickOp(r, kinds)
	inOff, inSize := genOff(r), genSize(r)
	outOff, outSize := genOff(r), genSize(r)
	if r.P(1, 4) { // overlap output with input
		outOff = inOff
	}
	flag := ""
	switch r.Intn(3) {
	case 0:
		flag = "s:" + hxu(uint64(0x10+r.Intn(6)))
	case 1:
		flag = "m:" + hxu(uint64(r.Intn(0x1c0)))
	}
	return Macro{K: "call", Op: kind, A: []string{g.callGas(r), g.target(r), g.callValue(r), inOff, inSize, outOff, outSize}, Flag: flag}
}

var precompileInputs = func() map[int][]string {
	return map[int][]string{
		1: {"0x18c547e4f7b0f325ad1e56f57e26c745b09a3e503d86e00e5255ff7f715d3d1c000000000000000000000000000000000000000000000000000000000000001c73b1693892219d736caba55bdb67216e485557ea6b6af75f37096c9aa6a5a75feeb940b1d03b21e36b0e47e79769f095fe2ab855bd91e3a38756b7d75a9c4549"},
		5: {"0x00000000000000000000000000000000000000000000000000000000000000010000000000000000000000000000000000000000000000000000000000000020000000000000000000000000000000000000000000000000000000000000002003fffffffffffffffffffffffffffffffffffffffffffffffffffffffefffffc2efffffffffffffffffffffffffffffffffffffffffffffffffffffffefffffc2f"},
		6: {"0x0000000000000000000000000000000000000000000000000000000000000001000000000000000000000000000000000000000000000000000000000000000200000000000000000000000000000000000000000000000000000000000000010000000000000000000000000000000000000000000000000000000000000002"},
		7: {"0x000000000000000000000000000000000000000000000000000000000000000100000000000000000000000000000000000000000000000000000000000000020000000000000000000000000000000000000000000000000000000000000003"},
		9: {"0x0000000c48c9bdf267e6096a3ba7ca8485ae67bb2bf894fe72f36e3cf1361d5f3af54fa5d182e6ad7f520e511f6c3e2b8c68059b6bbd41fbabd9831f79217e1319cde05b61626300000000000000000000000000000000000000000000000000000000000000000000000000000000000000000000000000000000000000000000000000000000000000000000000000000000000000000000000000000000000000000000000000000000000000000000000000000000000000000000000000000000000000000000000000000000000000000300000000000000000000000000000001"},
	}
}()

// genPrecompileCall stores an input into memory and calls the precompile with it.
func (g *genCtx) genPrecompileCall(r *RNG) []Macro {
	p := 1 + r.Intn(9)
	var in []byte
	if ins, ok := precompileInputs[p]; ok && r.P(2, 3) {
		in = unhex(pick(r, ins))
		if r.P(1, 4) && len(in) > 0 {
			in[r.Intn(len(in))] ^= byte(1 << uint(r.Intn(8)))
		}
		if r.P(1, 5) {
			in = in[:r.Intn(len(in)+1)]
		}
	} else {
		in = r.Bytes(r.Intn(200))
	}
	ms := storeBytes(0x200, in)
	kind := "CALL"
	if forkAtLeast(g.fork, "Byzantium") && r.P(1, 3) {
		kind = "STATICCALL"
	}
	ms = append(ms, Macro{K: "call", Op: kind, A: []string{g.callGas(r), hxu(uint64(p)), "0x0", "0x200", hxu(uint64(len(in))), "0x400", hxu(uint64(r.Intn(0x100)))},
		Flag: "m:" + hxu(uint64(r.Intn(0x100)))})
	if forkAtLeast(g.fork, "Byzantium") && r.P(1, 3) {
		// the return-data buffer is the callee's own copy: overwrite the memory the input came
		// from, then read the buffer back and make it observable
		n := "0x20"
		if p == 4 && len(in) < 32 {
			n = hxu(uint64(len(in)))
		}
		ms = append(ms, Macro{K: "op", Op: "MSTORE", A: []string{"0x200", genVal(r)}},
			Macro{K: "op", Op: "RETURNDATACOPY", A: []string{"0x600", "0x0", n}},
			Macro{K: "op", Op: "LOG0", A: []string{"0x600", "0x20"}})
	}
	return ms
}

// storeBytes emits MSTOREs placing b at memory offset off (zero padded to words).
func storeBytes(off int, b []byte) []Macro {
	var ms []Macro
	for i := 0; i < len(b); i += 32 {
		w := make([]byte, 32)
		copy(w, b[i:])
		ms = append(ms, Macro{K: "op", Op: "MSTORE", A: []string{hxu(uint64(off + i)), hx(w)}})
	}
	return ms
}

func (g *genCtx) genInit(r *RNG, depth int) *Program {
	switch r.Intn(8) {
	case 0:
		return &Program{M: []Macro{{K: "term", Op: "REVERT", A: []string{"0x0", "0x0"}}}}
	case 1:
		return &Program{M: []Macro{{K: "term", Op: "INVALID"}}}
	case 2:
		return &Program{} // empty runtime
	case 3: // 0xEF runtime
		return InitCodeReturning(nil, []byte{0xef, 0x00})
	case 4: // oversized runtime
		return &Program{M: []Macro{{K: "term", Op: "RETURN", A: []string{"0x0", hxu(uint64(24576 + r.Intn(3)))}}}}
	default:
		sub := *g
		sub.noCalls = depth > 1
		saved := curProg
		rt := &Program{}
		curProg = rt
		m := r.Intn(5)
		for i := 0; i < m; i++ {
			rt.M = append(rt.M, sub.genMacro(r, depth+2)...)
		}
		if r.Bool() {
			rt.M = append(rt.M, sub.genTerm(r))
		}
		ip := &Program{D: []DataBlob{{Prog: rt}}}
		curProg = ip
		n := r.Intn(4)
		for i := 0; i < n; i++ {
			ip.M = append(ip.M, sub.genMacro(r, depth+1)...)
		}
		ip.M = append(ip.M, Macro{K: "retdata", N: 0})
		curProg = saved
		return ip
	}
}

func (g *genCtx) genCreate(r *RNG, p *Program, depth int) Macro {
	op := "CREATE"
	if !g.noIntro && (forkAtLeast(g.fork, "Constantinople") || (!g.strictOps && r.P(1, 20))) && r.Bool() {
		op = "CREATE2"
	}
	p.D = append(p.D, DataBlob{Prog: g.genInit(r, depth)})
	flag := ""
	if r.Bool() {
		flag = "s:" + hxu(uint64(0x20+r.Intn(4)))
	}
	val := "0x0"
	if r.P(1, 4) {
		val = hxu(uint64(r.Intn(50)))
	}
	if r.P(1, 12) {
		val = "0xffffffffffffffffffff" // more than the creator owns: refused up front
	}
	return Macro{K: "create", Op: op, N: len(p.D) - 1, A: []string{val, hxu(uint64(r.Intn(3))), hxu(uint64(0x300 + 32*r.Intn(4)))}, Flag: flag}
}

// current program under construction (for data blobs)
type progBuilder struct {
	p *Program
}

var curProg *Program

var sweepPos = []string{"0x0", "0x1", "0x7", "0x8", "0x1e", "0x1f", "0x20", "0xff", "0x100", "0x101", "0x10000000000000000", "0xffffffffffffffffffffffffffffffffffffffffffffffffffffffffffffffff"}
var sweepVal = []string{"0x0", "0x1", "0x2", "0x80", "0xff", "0x7fffffffffffffffffffffffffffffffffffffffffffffffffffffffffffffff",
	"0x8000000000000000000000000000000000000000000000000000000000000000", "0xffffffffffffffffffffffffffffffffffffffffffffffffffffffffffffffff"}

// stackLimit: fill the stack to 1022-1024 items (PC pushes one item), then one instruction
// whose net stack effect decides whether it still fits; the frame goes on with the full stack.
func (g *genCtx) stackLimit(r *RNG) []Macro {
	n := pick(r, []int{1022, 1023, 1023, 1024, 1024})
	ops := []opAvail{{"ISZERO", ""}, {"NOT", ""}, {"MLOAD", ""}, {"SLOAD", ""}, {"BALANCE", ""}, {"CALLDATALOAD", ""},
		{"ADDRESS", ""}, {"MSIZE", ""}, {"GAS", ""}, {"DUP1", ""}, {"DUP16", ""}, {"SWAP16", ""}, {"ADD", ""}, {"CALLER", ""},
		{"PUSH0", "Shanghai"}, {"CHAINID", "Istanbul"}, {"SELFBALANCE", "Istanbul"}, {"BASEFEE", "London"}, {"RETURNDATASIZE", "Byzantium"}}
	if g.cancun {
		ops = append(ops, opAvail{"TLOAD", ""}, opAvail{"TLOAD", ""}, opAvail{"TLOAD", ""}, opAvail{"TLOAD", ""})
	}
	op := g.pickOp(r, ops)
	info, ok := opTable[op]
	if !ok || info.pops > n {
		return nil
	}
	g.heavy = true
	// the assembler pushes the instruction's operands itself: fill up to n minus those
	fill := make([]byte, n-info.pops)
	for i := range fill {
		fill[i] = 0x30 // ADDRESS: one byte, one item
	}
	a := make([]string, info.pops)
	for i := range a {
		a[i] = hxu(uint64(r.Intn(6)))
	}
	return []Macro{{K: "raw", Data: hx(fill)}, {K: "op", Op: op, A: a}}
}

// boundarySweep: one arithmetic / bit instruction on several operand tuples taken from the
// edges of its domain (word size, sign bit, zero), every result kept in memory or storage.
func (g *genCtx) boundarySweep(r *RNG) []Macro {
	op := g.pickOp(r, []opAvail{{"SHL", "Constantinople"}, {"SHR", "Constantinople"}, {"SAR", "Constantinople"}, {"BYTE", ""}, {"SIGNEXTEND", ""},
		{"SDIV", ""}, {"SMOD", ""}, {"ADDMOD", ""}, {"MULMOD", ""}, {"EXP", ""}, {"DIV", ""}, {"MOD", ""}, {"SLT", ""}, {"SGT", ""}})
	var ms []Macro
	n := 4 + r.Intn(4)
	for i := 0; i < n; i++ {
		a := make([]string, opTable[op].pops)
		for k := range a {
			a[k] = pick(r, sweepVal)
		}
		switch op {
		case "SHL", "SHR", "SAR", "BYTE", "SIGNEXTEND":
			a[0] = pick(r, sweepPos)
		case "EXP":
			a[1] = pick(r, []string{"0x0", "0x1", "0x2", "0xff", "0x100", "0xffff", "0x10000"})
		}
		dst := 0x101 + 32*i
		if r.P(1, 4) {
			dst = -(0x38 + i%4)
		}
		ms = append(ms, Macro{K: "op", Op: op, A: a, Dst: dst})
	}
	return ms
}

func (g *genCtx) genMacro(r *RNG, depth int) []Macro {
	w := r.Intn(100)
	if g.noIntro {
		// no code introspection and no raw bytes: the C15 opcode transliteration must stay unobservable
		if (w >= 55 && w < 62) || w >= 97 {
			w = 91 + r.Intn(3)
		}
		if w >= 22 && w < 30 {
			return []Macro{{K: "op", Op: g.pickOp(r, envOpsNoCode), Dst: genDst(r)}}
		}
		if w >= 91 && w < 94 && r.P(2, 3) {
			if r.Bool() {
				return []Macro{{K: "op", Op: "TSTORE", A: []string{genSlot(r), genVal(r)}}}
			}
			return []Macro{{K: "op", Op: "TLOAD", A: []string{genSlot(r)}, Dst: genDst(r)}}
		}
	}
	switch {
	case w < 22:
		if r.P(1, 4) {
			return g.boundarySweep(r)
		}
		op := g.pickOp(r, arithOps)
		n := opTable[op].pops
		a := make([]string, n)
		for i := range a {
			a[i] = genVal(r)
		}
		if op == "EXP" && r.P(2, 3) {
			a[1] = hxu(uint64(r.Intn(300)))
		}
		switch op {
		case "SHL", "SHR", "SAR", "BYTE", "SIGNEXTEND":
			if r.Bool() {
				// (position, value) pairs around the word size and the sign bit
				a[0] = pick(r, []string{"0x0", "0x1", "0x7", "0x8", "0x1e", "0x1f", "0x20", "0xff", "0x100", "0x101", "0x10000000000000000", "0xffffffffffffffffffffffffffffffffffffffffffffffffffffffffffffffff"})
				a[1] = pick(r, []string{"0x0", "0x1", "0x80", "0xff", "0x7fffffffffffffffffffffffffffffffffffffffffffffffffffffffffffffff",
					"0x8000000000000000000000000000000000000000000000000000000000000000",
					"0xffffffffffffffffffffffffffffffffffffffffffffffffffffffffffffffff", hx(r.Bytes(32))})
			}
		case "SDIV", "SMOD", "DIV", "MOD", "ADDMOD", "MULMOD":
			if r.P(1, 3) {
				for i := range a {
					a[i] = pick(r, []string{"0x0", "0x1", "0x2", "0x8000000000000000000000000000000000000000000000000000000000000000",
						"0xffffffffffffffffffffffffffffffffffffffffffffffffffffffffffffffff", "0x7fffffffffffffffffffffffffffffffffffffffffffffffffffffffffffffff", hx(r.Bytes(32))})
				}
			}
		}
		return []Macro{{K: "op", Op: op, A: a, Dst: genDst(r)}}
	case w < 30:
		return []Macro{{K: "op", Op: g.pickOp(r, envOps), Dst: genDst(r)}}
	case w < 38:
		switch r.Intn(4) {
		case 0:
			return []Macro{{K: "op", Op: "MSTORE", A: []string{genOff(r), genVal(r)}}}
		case 1:
			return []Macro{{K: "op", Op: "MSTORE8", A: []string{genOff(r), genVal(r)}}}
		case 2:
			return []Macro{{K: "op", Op: "MLOAD", A: []string{genOff(r)}, Dst: genDst(r)}}
		default:
			return []Macro{{K: "op", Op: "KECCAK256", A: []string{genOff(r), genSize(r)}, Dst: genDst(r)}}
		}
	case w < 50:
		if r.P(1, 6) {
			// net metering: one slot written two or three times in a row with values from the
			// small set its committed value is also drawn from (dirty / restored / cleared)
			s := genSlot(r)
			var ms []Macro
			for i := 0; i < 2+r.Intn(2); i++ {
				ms = append(ms, Macro{K: "op", Op: "SSTORE", A: []string{s, pick(r, []string{"0x0", "0x1", "0x2"})}})
			}
			return ms
		}
		if r.P(2, 3) {
			return []Macro{{K: "op", Op: "SSTORE", A: []string{genSlot(r), pick(r, []string{"0x0", "0x1", "0x2", genVal(r)})}}}
		}
		return []Macro{{K: "op", Op: "SLOAD", A: []string{genSlot(r)}, Dst: genDst(r)}}
	case w < 55:
		n := r.Intn(5)
		a := []string{genOff(r), genSize(r)}
		for i := 0; i < n; i++ {
			a = append(a, genVal(r))
		}
		return []Macro{{K: "op", Op: fmt.Sprintf("LOG%d", n), A: a}}
	case w < 62:
		switch r.Intn(6) {
		case 0:
			return []Macro{{K: "op", Op: "CALLDATALOAD", A: []string{genOff(r)}, Dst: genDst(r)}}
		case 1:
			return []Macro{{K: "op", Op: "CALLDATACOPY", A: []string{genOff(r), genOff(r), genSize(r)}}}
		case 2:
			return []Macro{{K: "op", Op: "CODECOPY", A: []string{genOff(r), genOff(r), genSize(r)}}}
		case 3:
			if forkAtLeast(g.fork, "Byzantium") || (!g.strictOps && r.P(1, 10)) {
				return []Macro{{K: "op", Op: "RETURNDATACOPY", A: []string{genOff(r), pick(r, []string{"0x0", "0x1", genOff(r)}), pick(r, []string{"0x0", "0x1", "0x20", genSize(r)})}}}
			}
			return []Macro{{K: "op", Op: "EXTCODESIZE", A: []string{g.target(r)}, Dst: genDst(r)}}
		case 4:
			return []Macro{{K: "op", Op: "EXTCODECOPY", A: []string{g.target(r), genOff(r), genOff(r), genSize(r)}}}
		default:
			op := "BALANCE"
			if r.Bool() {
				op = g.pickOp(r, []opAvail{{"EXTCODESIZE", ""}, {"EXTCODEHASH", "Constantinople"}, {"BLOCKHASH", ""}})
			}
			a := g.target(r)
			if op == "BLOCKHASH" {
				a = hxu(uint64(r.Intn(300)))
				if g.blockNum > 0 && r.P(3, 4) {
					// around the 256-block window below the executing block (and the block itself, the future)
					d := int64(pick(r, []int{0, 1, 2, 255, 256, 257, 258, 300, -1, -2}))
					if r.P(1, 4) {
						d = int64(r.Intn(300))
					}
					if n := int64(g.blockNum) - d; n >= 0 {
						a = hxu(uint64(n))
					}
				}
			}
			return []Macro{{K: "op", Op: op, A: []string{a}, Dst: genDst(r)}}
		}
	case w < 66:
		if r.P(1, 10) {
			return g.stackLimit(r)
		}
		n := 1 + r.Intn(16)
		op := fmt.Sprintf("DUP%d", n)
		if r.Bool() {
			op = fmt.Sprintf("SWAP%d", n)
		}
		k := opTable[op].pops
		a := make([]string, k)
		for i := range a {
			a[i] = hxu(uint64(i + 1))
		}
		return []Macro{{K: "op", Op: op, A: a, Dst: genDst(r)}}
	case w < 78:
		if g.noCalls {
			return []Macro{{K: "op", Op: "ADD", A: []string{genVal(r), genVal(r)}, Dst: genDst(r)}}
		}
		if r.P(1, 5) {
			return g.genPrecompileCall(r)
		}
		c := g.genCall(r)
		ms := []Macro{c}
		if r.P(1, 3) {
			// probe the account just touched (existing-but-empty accounts, warm/cold state)
			probe := g.pickOp(r, []opAvail{{"EXTCODEHASH", "Constantinople"}, {"EXTCODESIZE", ""}, {"BALANCE", ""}, {"EXTCODEHASH", "Constantinople"}})
			if g.noIntro {
				probe = "BALANCE" // code hashes differ by design in the transliterated profile
			}
			ms = append(ms, Macro{K: "op", Op: probe, A: []string{c.A[1]}, Dst: 1 + r.Intn(0x1c0)})
			if r.P(1, 3) {
				c2 := c
				c2.A = append([]string{}, c.A...)
				c2.A[2] = hxu(uint64(1 + r.Intn(5))) // then send value to it
				ms = append(ms, c2)
			}
		}
		return ms
	case w < 83:
		if g.noCalls || depth > 2 || (g.noIntro && g.noMcopy) {
			// (tstore profile: init code would be copied from code into memory, making the
			// transliterated bytes observable)
			return []Macro{{K: "op", Op: "NOT", A: []string{genVal(r)}, Dst: genDst(r)}}
		}
		cm := g.genCreate(r, curProg, depth)
		ms := []Macro{cm}
		if cm.Op == "CREATE2" && r.P(1, 4) {
			// the same salt and init code again: an address collision (which still consumes the
			// creator's nonce), then a CREATE whose address shows which nonce the creator is at
			again := cm
			again.Flag = "s:" + hxu(uint64(0x24+r.Intn(2)))
			next := cm
			next.Op = "CREATE"
			next.Flag = "s:" + hxu(uint64(0x26+r.Intn(2)))
			ms = append(ms, again, next)
			g.nCreates += 2
		}
		if g.self != "" && depth == 0 {
			if cm.Op == "CREATE" && r.P(1, 2) {
				// touch the address the create was aimed at (warm even if the create failed)
				would := crypto.CreateAddress(addr(g.self), uint64(1+g.nCreates))
				probe := g.pickOp(r, []opAvail{{"BALANCE", ""}, {"EXTCODESIZE", ""}, {"EXTCODEHASH", "Constantinople"}})
				ms = append(ms, Macro{K: "op", Op: probe, A: []string{hx(would[:])}, Dst: 1 + r.Intn(0x1c0)})
			}
			g.nCreates++
		}
		if forkAtLeast(g.fork, "Byzantium") && r.P(1, 2) {
			// what the return-data buffer holds right after the create (empty unless the init code reverted)
			ms = append(ms, Macro{K: "op", Op: "RETURNDATASIZE", Dst: 1 + r.Intn(0x1c0)})
			if r.P(1, 3) {
				ms = append(ms, Macro{K: "op", Op: "RETURNDATACOPY", A: []string{hxu(uint64(r.Intn(0x100))), "0x0", pick(r, []string{"0x1", "0x2", "0x20"})}})
			}
		}
		return ms
	case w < 88:
		var body []Macro
		n := 1 + r.Intn(3)
		for i := 0; i < n; i++ {
			body = append(body, g.genMacro(r, depth+1)...)
		}
		cond := pick(r, []string{"0x0", "0x1", "CD:0x0", "CD:0x20"})
		return []Macro{{K: "if", A: []string{cond}, Body: body}}
	case w < 91:
		if depth > 1 {
			return []Macro{{K: "op", Op: "ISZERO", A: []string{genVal(r)}, Dst: genDst(r)}}
		}
		var body []Macro
		n := 1 + r.Intn(2)
		for i := 0; i < n; i++ {
			body = append(body, g.genMacro(r, depth+2)...)
		}
		return []Macro{{K: "loop", N: 1 + r.Intn(4), Body: body}}
	case w < 94:
		if g.cancun {
			k := 3
			if g.noMcopy {
				k = 2
			}
			switch r.Intn(k) {
			case 0:
				return []Macro{{K: "op", Op: "TSTORE", A: []string{genSlot(r), genVal(r)}}}
			case 1:
				return []Macro{{K: "op", Op: "TLOAD", A: []string{genSlot(r)}, Dst: genDst(r)}}
			default:
				return []Macro{{K: "op", Op: "MCOPY", A: []string{genOff(r), genOff(r), genSize(r)}}}
			}
		}
		return []Macro{{K: "op", Op: "SELFBALANCE", Dst: genDst(r)}}[:b2i(forkAtLeast(g.fork, "Istanbul"))]
	case w < 97:
		// early terminator inside a conditional so that the rest still runs sometimes
		t := g.genTerm(r)
		return []Macro{{K: "if", A: []string{pick(r, []string{"0x1", "CD:0x0", "0x0"})}, Body: []Macro{t}}}
	default:
		if g.strictOps {
			return nil
		}
		raw := r.Bytes(1 + r.Intn(3))
		for i := range raw {
			if raw[i] >= 0xe0 && raw[i] <= 0xe7 {
				raw[i] = 0xe8 // journal opcodes are not standard opcodes
			}
		}
		return []Macro{{K: "raw", Data: hx(raw)}}
	}
}

func b2i(b bool) int {
	if b {
		return 1
	}
	return 0
}

func (g *genCtx) genTerm(r *RNG) Macro {
	switch r.Intn(16) {
	case 0, 1:
		return Macro{K: "term", Op: "STOP"}
	case 2, 3, 4:
		return Macro{K: "term", Op: "RETURN", A: []string{genOff(r), genSize(r)}}
	case 5, 6:
		if forkAtLeast(g.fork, "Byzantium") || !g.strictOps {
			return Macro{K: "term", Op: "REVERT", A: []string{genOff(r), genSize(r)}}
		}
		return Macro{K: "term", Op: "INVALID"}
	case 7:
		return Macro{K: "term", Op: "INVALID"}
	case 8:
		return Macro{K: "term", Op: "SELFDESTRUCT", A: []string{g.target(r)}}
	default:
		return Macro{K: "term", Op: "RETURN", A: []string{"0x0", "0x1e0"}}
	}
}

func (g *genCtx) genProgram(r *RNG, n int) *Program {
	p := &Program{}
	saved := curProg
	curProg = p
	for i := 0; i < n; i++ {
		p.M = append(p.M, g.genMacro(r, 0)...)
	}
	if !g.noIntro && r.Bool() {
		// observer: fold the memory region the result sinks write to into storage, so that a
		// wrong intermediate value reaches the post-state even if the program never returns it
		p.M = append(p.M, Macro{K: "op", Op: "KECCAK256", A: []string{"0x0", "0x200"}, Dst: -0x3e})
	}
	if r.P(3, 4) {
		p.M = append(p.M, g.genTerm(r))
	}
	curProg = saved
	return p
}

func genBlock(r *RNG) BlockSpec {
	num := uint64(1 + r.Intn(2000000))
	if r.P(1, 10) {
		num = uint64(1 + r.Intn(300)) // younger than the BLOCKHASH window
	}
	return BlockSpec{Number: num, Time: uint64(1600000000 + r.Intn(100000000)), Difficulty: uint64(r.Intn(1 << 30)),
		GasLimit: uint64(8000000 + r.Intn(22000000)), BaseFee: uint64(r.Intn(1000)), Coinbase: "0xc01bba5e00000000000000000000000000000000", GasPrice: uint64(1 + r.Intn(1000))}
}

func pickFork(r *RNG, max string) string {
	hi := forkIndex(max)
	// bias towards recent forks but cover all
	if r.P(1, 2) {
		lo := hi - 4
		if lo < 0 {
			lo = 0
		}
		return forkOrder[r.Range(lo, hi)]
	}
	return forkOrder[r.Intn(hi+1)]
}

var activateableEIPs = []int{1344, 1884, 2200, 2929, 3198, 3529, 3855, 3860}

// genStdScenario: 1-4 contracts calling each other, one executor, 1-3 transactions.
func genStdScenario(seed uint64, prop string, maxFork string) *Scenario {
	r := NewRNG(seed)
	sc := &Scenario{Prop: prop, Seed: seed, Fork: pickFork(r, maxFork), Block: genBlock(r), Tracer: "rec"}
	if r.P(1, 6) {
		n := 1 + r.Intn(2)
		for i := 0; i < n; i++ {
			e := pick(r, activateableEIPs)
			if (e == 2929 || e == 3529) && !forkAtLeast(sc.Fork, "Berlin") {
				continue // needs the access list that Prepare only builds from Berlin: not a supported host configuration
			}
			sc.ExtraEIPs = append(sc.ExtraEIPs, e)
		}
	}
	nc := 1 + r.Intn(4)
	g := &genCtx{fork: sc.Fork, nContract: nc, strictOps: r.P(3, 4), cancun: sc.Fork == "Cancun", blockNum: sc.Block.Number}
	for i := 0; i < nc; i++ {
		g.targets = append(g.targets, contractAddr(i))
	}
	sc.Accounts = append(sc.Accounts, Account{Addr: eoaA, Balance: "0xffffffffffffffffffff"}, Account{Addr: eoaB, Balance: "0x3e8"},
		Account{Addr: codeless, Balance: "0x1"}, Account{Addr: emptyAcct})
	for i := 0; i < nc; i++ {
		g.self, g.nCreates = contractAddr(i), 0
		a := Account{Addr: contractAddr(i), Balance: hxu(uint64(r.Intn(5000))), Nonce: 1, Code: g.genProgram(r, 2+r.Intn(14))}
		g.self = ""
		if r.P(1, 25) {
			a.Nonce = ^uint64(0) // creator at the nonce limit
		}
		if r.Bool() {
			a.Storage = map[string]string{}
			for k := 0; k < r.Intn(4); k++ {
				// often a value the program's SSTOREs also use, so that a slot can be changed and
				// then set back to its committed value within one transaction (net metering)
				a.Storage[genSlot(r)] = pick(r, []string{"0x1", "0x2", "0x1", genVal(r)})
			}
			if r.Bool() {
				// every slot the programs use holds a committed non-zero value
				for k := 0; k < 6; k++ {
					a.Storage[hxu(uint64(k))] = pick(r, []string{"0x1", "0x2", "0x1", "0x2", genVal(r)})
				}
			}
		}
		sc.Accounts = append(sc.Accounts, a)
	}
	if nc >= 2 && r.P(1, 10) {
		// self-destruct cluster: the last contract destroys itself (beneficiary: an outsider, itself,
		// or a contract that also self-destructs) and is called more than once in one transaction
		last := len(sc.Accounts) - 1
		ben := pick(r, []string{eoaB, sc.Accounts[last].Addr, contractAddr(0), ghost})
		sc.Accounts[last].Code = &Program{M: []Macro{{K: "op", Op: "SSTORE", A: []string{"0x1", "0x1"}}, {K: "term", Op: "SELFDESTRUCT", A: []string{ben}}}}
		first := len(sc.Accounts) - nc
		callLast := Macro{K: "call", Op: "CALL", A: []string{"GAS", sc.Accounts[last].Addr, "0x0", "0x0", "0x0", "0x0", "0x0"}, Flag: "m:0x20"}
		pre := []Macro{callLast}
		if ben == contractAddr(0) && r.Bool() {
			// the beneficiary destroys itself first
			sc.Accounts[first].Code.M = append(sc.Accounts[first].Code.M, Macro{K: "term", Op: "SELFDESTRUCT", A: []string{eoaB}})
		}
		for k := 0; k < 1+r.Intn(2); k++ {
			pre = append(pre, callLast)
		}
		if nc >= 3 {
			mid := first + 1
			sc.Accounts[mid].Code.M = append(append([]Macro{}, pre...), sc.Accounts[mid].Code.M...)
		}
		sc.Accounts[first].Code.M = append(pre, sc.Accounts[first].Code.M...)
	}
	if r.P(1, 8) {
		// rolled-back write cluster: the first contract reads a slot, calls itself (empty calldata
		// selects the branch that writes the slot and then fails, or - via STATICCALL - is not
		// allowed to write at all), and reads the slot again
		first := len(sc.Accounts) - nc
		self := sc.Accounts[first].Addr
		slot, val := genSlot(r), genVal(r)
		fail := Macro{K: "term", Op: "INVALID"}
		kinds := []string{"CALL", "CALLCODE"}
		if forkAtLeast(sc.Fork, "Homestead") {
			kinds = append(kinds, "DELEGATECALL")
		}
		if forkAtLeast(sc.Fork, "Byzantium") {
			fail = pick(r, []Macro{{K: "term", Op: "REVERT", A: []string{"0x0", "0x0"}}, {K: "term", Op: "INVALID"}, {K: "term", Op: "STOP"}})
			kinds = append(kinds, "STATICCALL")
		}
		kind := pick(r, kinds)
		args := []string{"GAS", self, "0x0", "0x0", "0x0", "0x0", "0x0"}
		if kind == "DELEGATECALL" || kind == "STATICCALL" {
			args = []string{"GAS", self, "0x0", "0x0", "0x0", "0x0"}
		}
		pre := []Macro{
			{K: "if", A: []string{"CD:0x0"}, Body: []Macro{{K: "op", Op: "SSTORE", A: []string{slot, val}}, fail}},
			{K: "op", Op: "SLOAD", A: []string{slot}, Dst: 0x41},
			{K: "call", Op: kind, A: args, Flag: "m:0x20"},
			{K: "op", Op: "SLOAD", A: []string{slot}, Dst: 0x61},
		}
		sc.Accounts[first].Code.M = append(pre, sc.Accounts[first].Code.M...)
	}
	if nc >= 3 && forkAtLeast(sc.Fork, "Homestead") && r.P(1, 8) {
		// delegation chain: what CALLER / ADDRESS / CALLVALUE are two code-borrowing levels down
		first := len(sc.Accounts) - nc
		k1 := pick(r, []string{"DELEGATECALL", "DELEGATECALL", "CALLCODE", "CALL"})
		k2 := pick(r, []string{"DELEGATECALL", "DELEGATECALL", "CALLCODE"})
		mk := func(kind, to string) Macro {
			if kind == "DELEGATECALL" {
				return Macro{K: "call", Op: kind, A: []string{"GAS", to, "0x0", "0x0", "0x0", "0x0"}, Flag: "m:0x20"}
			}
			return Macro{K: "call", Op: kind, A: []string{"GAS", to, hxu(uint64(r.Intn(3))), "0x0", "0x0", "0x0", "0x0"}, Flag: "m:0x20"}
		}
		leaf := []Macro{{K: "op", Op: "CALLER", Dst: -0x34}, {K: "op", Op: "ADDRESS", Dst: -0x35}, {K: "op", Op: "CALLVALUE", Dst: -0x36}}
		sc.Accounts[first+2].Code.M = append(leaf, sc.Accounts[first+2].Code.M...)
		sc.Accounts[first+1].Code.M = append([]Macro{mk(k2, sc.Accounts[first+2].Addr)}, sc.Accounts[first+1].Code.M...)
		sc.Accounts[first].Code.M = append([]Macro{mk(k1, sc.Accounts[first+1].Addr)}, sc.Accounts[first].Code.M...)
	}
	ntx := 1 + r.Intn(3)
	var ex Exec
	for i := 0; i < ntx; i++ {
		tx := genTx(r, g)
		if g.heavy && tx.Gas > 250000 {
			// a program that fills the stack executes a thousand instructions per frame: with
			// self-recursion a large gas limit means a million recorded steps per interpreter
			tx.Gas = 100000 + tx.Gas%150000
		}
		ex.Txs = append(ex.Txs, tx)
	}
	sc.Execs = []Exec{ex}
	return sc
}

func genGasLimit(r *RNG) uint64 {
	switch r.Intn(6) {
	case 0:
		return uint64(r.Intn(30000))
	case 1:
		return uint64(30000 + r.Intn(70000))
	case 2, 3:
		return uint64(100000 + r.Intn(400000))
	default:
		return uint64(500000 + r.Intn(1500000))
	}
}

func genTx(r *RNG, g *genCtx) Tx {
	tx := Tx{From: eoaA, Gas: genGasLimit(r), Data: hx(r.Bytes(pick(r, []int{0, 0, 4, 32, 36, 64, r.Intn(100)})))}
	if r.P(1, 3) {
		tx.Value = hxu(uint64(r.Intn(2000)))
	}
	if r.P(1, 20) {
		tx.From = eoaB // poor sender: insufficient balance paths
		tx.Value = hxu(uint64(900 + r.Intn(300)))
	}
	k := r.Intn(12)
	switch {
	case k < 6:
		tx.Kind = "call"
		tx.To = g.target(r)
	case k == 6:
		tx.Kind = "callcode"
		tx.To = g.target(r)
	case k == 7:
		tx.Kind = "delegatecall"
		tx.To = g.target(r)
	case k == 8:
		tx.Kind = "staticcall"
		tx.To = g.target(r)
	case k == 9 || k == 10:
		tx.Kind = "create"
		saved := curProg
		tx.Init = g.genInit(r, 0)
		curProg = saved
	default:
		tx.Kind = "create2"
		tx.Salt = hxu(uint64(r.Intn(4)))
		tx.Init = g.genInit(r, 0)
	}
	if forkAtLeast(g.fork, "Berlin") && r.P(1, 3) {
		n := 1 + r.Intn(3)
		for i := 0; i < n; i++ {
			t := AccessTuple{Addr: g.target(r)}
			for j := 0; j < r.Intn(3); j++ {
				t.Slots = append(t.Slots, genSlot(r))
			}
			tx.AL = append(tx.AL, t)
		}
	}
	return tx
}
