package main

// A scenario is the self-contained, JSON-serialisable description of one simulated
// run: world, transactions per executor, bindings, fault plan, schedule. The replay
// file stores a scenario, never a seed to regenerate from.

import (
	"encoding/json"
	"sort"
)

type Account struct {
	Addr    string            `json:"addr"`
	Balance string            `json:"bal,omitempty"`
	Nonce   uint64            `json:"nonce,omitempty"`
	Code    *Program          `json:"code,omitempty"`
	RawCode string            `json:"raw,omitempty"`
	Storage map[string]string `json:"st,omitempty"`
}

type AccessTuple struct {
	Addr  string   `json:"addr"`
	Slots []string `json:"slots,omitempty"`
}

type Tx struct {
	Kind    string        `json:"kind"` // call callcode delegatecall staticcall create create2
	From    string        `json:"from"`
	To      string        `json:"to,omitempty"`
	Init    *Program      `json:"init,omitempty"`
	InitHex string        `json:"inithex,omitempty"`
	Data    string        `json:"data,omitempty"`
	Value   string        `json:"value,omitempty"`
	Gas     uint64        `json:"gas"`
	Salt    string        `json:"salt,omitempty"`
	AL      []AccessTuple `json:"al,omitempty"`
	JPOff   bool          `json:"jpoff,omitempty"`   // join points switched off for this tx
	SameEVM bool          `json:"sameevm,omitempty"` // reuse the EVM of the previous tx of this executor
	NoPrep  bool          `json:"noprep,omitempty"`  // do not call Prepare (same transaction continues)
}

// Fault plan entry. Kinds:
//
//	provider  F2: GetTxBondAspects returns an error at the At-th firing of tx Tx (Arg: generic|oog|revert)
//	aspect    F3/F4: a WASM aspect of flavour Arg is bound at the At-th firing
//	hostcb    F5: host callback #At returns Arg (err|empty|big)
//	cancel    F6: Cancel() at yield At of tx Tx
//	gas       F1: gas limit of tx Tx overridden with At
type Fault struct {
	Kind string `json:"kind"`
	Ex   int    `json:"ex,omitempty"`
	Tx   int    `json:"tx,omitempty"`
	At   int    `json:"at"`
	Arg  string `json:"arg,omitempty"`
	N    uint64 `json:"n,omitempty"`
}

type AspectSpec struct {
	ID   string `json:"id"`
	Kind string `json:"kind"`        // noop | burn | trap | revert | loop | ret | call
	N    uint64 `json:"n,omitempty"` // burn iterations / call count
	Arg  string `json:"arg,omitempty"`
}

type Binding struct {
	Contract string       `json:"contract"`
	Point    string       `json:"point"` // pre | post | both
	Aspects  []AspectSpec `json:"aspects"`
}

type Exec struct {
	Txs []Tx `json:"txs"`
}

type BlockSpec struct {
	Number     uint64 `json:"number"`
	Time       uint64 `json:"time"`
	Difficulty uint64 `json:"difficulty"`
	GasLimit   uint64 `json:"gaslimit"`
	BaseFee    uint64 `json:"basefee"`
	Coinbase   string `json:"coinbase"`
	GasPrice   uint64 `json:"gasprice"`
}

type Sched struct {
	SwitchPPM int   `json:"ppm,omitempty"`     // probability (per mille) of switching at a yield
	Seed      uint64 `json:"seed,omitempty"`   // PRNG for switch decisions when Choices is nil
	Choices   []int `json:"choices,omitempty"` // explicit: index of yield at which to switch, then target
}

// Op is one step of a generated history for the history-quantified properties
// (C11 key-tree operations, C19 tracer event streams).
type Op struct {
	K string   `json:"k"`
	A []string `json:"a,omitempty"`
	N []uint64 `json:"n,omitempty"`
}

type Scenario struct {
	Prop      string         `json:"property"`
	Seed      uint64         `json:"seed"`
	Profile   string         `json:"profile,omitempty"`
	Fork      string         `json:"fork"`
	ExtraEIPs []int          `json:"eips,omitempty"`
	Block     BlockSpec      `json:"block"`
	Accounts  []Account      `json:"accounts,omitempty"`
	Bindings  []Binding      `json:"bindings,omitempty"`
	Execs     []Exec         `json:"execs,omitempty"`
	Faults    []Fault        `json:"faults,omitempty"`
	Sched     Sched          `json:"sched,omitempty"`
	Tracer    string         `json:"tracer,omitempty"` // "" = none, "rec" = recorder, other = named tracer + recorder
	TracerCfg string         `json:"tracercfg,omitempty"`
	Params    map[string]int `json:"params,omitempty"`
	Ops       []Op           `json:"ops,omitempty"`
	// Subs: independent worlds, one executor each, run side by side in one process (C17)
	Subs []*Scenario `json:"subs,omitempty"`
}

func (s *Scenario) P(name string, def int) int {
	if v, ok := s.Params[name]; ok {
		return v
	}
	return def
}

// resetBefore: whether transaction i, which reuses the previous transaction's EVM object,
// is preceded by EVM.Reset (hosts do both: go-ethereum's block processor resets, callers
// of the entry points on one object do not). Pure function of the scenario.
func (s *Scenario) resetBefore(i int) bool {
	if s.P("noreset", 0) == 1 {
		return false
	}
	return ((s.Seed>>7)+uint64(i))%2 == 0
}

func (s *Scenario) Clone() *Scenario {
	b, err := json.Marshal(s)
	if err != nil {
		panic(harnessErr("clone: " + err.Error()))
	}
	var c Scenario
	if err := json.Unmarshal(b, &c); err != nil {
		panic(harnessErr("clone: " + err.Error()))
	}
	return &c
}

func (s *Scenario) JSON() []byte {
	b, err := json.MarshalIndent(s, "", " ")
	if err != nil {
		panic(harnessErr("json: " + err.Error()))
	}
	return b
}

func sortedKeys(m map[string]string) []string {
	ks := make([]string, 0, len(m))
	for k := range m {
		ks = append(ks, k)
	}
	sort.Strings(ks)
	return ks
}

// Violation is what an oracle reports.
type Violation struct {
	Prop string `json:"property"`
	Rule string `json:"rule"`
	Sig  string `json:"signature"` // stable identification of the failing site / input shape
	Seq  int    `json:"seq"`       // event sequence number where it was detected
	Msg  string `json:"message"`
	// derived scenario that exhibits the violation (e.g. the scenario plus one injected fault)
	Sc *Scenario `json:"-"`
}

type harnessErr string

func (h harnessErr) Error() string { return "harness: " + string(h) }
