package main

// Frame tree and attempt log reconstructed from the recorded history only (debug
// tracer step/enter/exit events, provider and aspect-logger events). Nothing here
// reads the call tree or any other object of the system under test.

import (
	"fmt"
	"math/big"

	"github.com/ethereum/go-ethereum/common"
	"github.com/holiman/uint256"
)

type Frame struct {
	Ex       int
	Tx       int
	Top      bool
	Typ      byte // opcode of the frame (f1 CALL, f0 CREATE ...; top-level: f1 or f0)
	Create   bool
	From, To common.Address
	In       []byte
	Gas      uint64
	Value    *big.Int
	EnterSeq int
	ExitSeq  int
	Closed   bool
	Out      []byte
	GasUsed  uint64
	Err      string
	Parent   *Frame
	Kids     []*Frame
	Steps    []*Ev // steps executed directly in this frame (not in children)
	First    *Ev   // first instruction of this frame, executed (step) or refused (fault)
	Depth    int   // interpreter depth of this frame's steps (1 = top)
	CodeLen  int   // code size of the target at entry (annotated online)
	IsPre    bool  // target is a precompile at entry
	JPOn     bool  // join points enabled when the frame was entered
	Prov     []*Ev // provider events fired directly in this frame
	AspIn    []*Ev // aspect enter events directly in this frame
	AspOut   []*Ev // aspect exit events directly in this frame
	InAspect bool  // frame was issued from inside an Aspect execution
	FromAspect bool // frame was issued directly by an Aspect (host hook), not by an instruction
	SnapSeq  int   // seq of the Snapshot event opening this frame's rollback scope (-1 none)
	SnapLogs int
	Attempt  *Attempt
	SelfDes  bool
}

func (f *Frame) Failed() bool { return f.Err != "" }

// Attempt: one CALL/CALLCODE/DELEGATECALL/STATICCALL/CREATE/CREATE2 instruction, or a
// top-level entry, as observed from the step stream.
type Attempt struct {
	Ex       int
	Tx       int
	Top      bool
	Op       byte
	Caller   common.Address
	Target   common.Address // zero for creates
	Value    *uint256.Int
	Input    []byte
	StepSeq  int
	StepGas  uint64 // gas before the instruction
	StepCost uint64
	Depth    int
	Frame    *Frame   // nil when refused before a frame was entered
	Parent   *Attempt // innermost enclosing CALL/CREATE attempt (the call-tree parent)
	Flag     *uint256.Int
	HaveFlag bool
	RData    []byte
	Back     uint64 // gas handed back: gas(next step) - (gas(step) - cost(step))
	HaveBack bool
	OutSeq   int    // seq of the caller's next step (where the outcome was seen); 0 when none
	Supplied uint64 // creates only
	Node     int // expected call-tree index (-1 for kinds the call tree does not record)
	InAspect bool
	// top-level result
	TopRet  []byte
	TopLeft uint64
	TopErr  string
	pc      uint64
}

func (a *Attempt) Recorded() bool { return a.Op == 0xf1 || a.Op == 0xf0 || a.Op == 0xf5 }

type History struct {
	Frames   []*Frame   // in order of entry
	Roots    []*Frame   // top-level frames, one per tx that got that far
	Attempts []*Attempt // in program order
	Problems []string   // structural problems found while parsing (stream not well nested)
	// JournalAt: for every journal-opcode step, the innermost open CALL/CREATE attempt
	JournalAt map[int]*Attempt
	// Faulted: steps (by seq) whose instruction faulted while executing
	Faulted map[int]bool
}

func memSlice(mem []byte, off, size uint64) []byte {
	if size == 0 {
		return nil
	}
	if size > 1<<20 {
		size = 1 << 20
	}
	out := make([]byte, size)
	if off < uint64(len(mem)) {
		copy(out, mem[off:])
	}
	return out
}

func isCallOp(op byte) bool {
	switch op {
	case 0xf0, 0xf1, 0xf2, 0xf4, 0xf5, 0xfa:
		return true
	}
	return false
}

// BuildHistory parses the events of one executor.
func BuildHistory(evs []Ev, ex int) *History {
	h := &History{}
	var stack []*Frame
	var attStack []*Attempt   // open recorded attempts (call-tree cursor), including top-level
	tx := -1
	jpOn := true
	snapSeq, snapLogs := -1, 0
	aspectDepth := 0
	nodeIdx := map[int]int{} // per EVM we cannot know; indices assigned by caller via Renumber
	_ = nodeIdx
	var lastStepAt = map[int]*Attempt{} // depth -> attempt opened by the last step at that depth
	lastJournal := map[int]int{}        // depth -> seq of the last journal step at that depth (until the next step)

	closeOutcome := func(depth int, e *Ev) {
		// the next step at `depth` reveals the outcome of the attempt opened at that depth
		if a := lastStepAt[depth]; a != nil {
			if a.Frame == nil && snapSeq == a.StepSeq {
				// refused before entry: its scope must not be inherited by a later frame
				// (e.g. the pseudo-frame of a following SELFDESTRUCT)
				snapSeq = -1
			}
			if e.K == evFault && e.PC == a.pcOf() {
				// the instruction itself faulted before issuing the call: not an attempt
				a.cancel(h)
			} else if e.K == evStep {
				if n := len(e.Stack); n > 0 {
					v := e.Stack[n-1]
					a.Flag = &v
					a.HaveFlag = true
				}
				a.RData = e.RData
				a.Back = e.Gas - (a.StepGas - a.StepCost)
				a.HaveBack = true
				a.OutSeq = e.Seq
				if a.Op == 0xf0 || a.Op == 0xf5 {
					// a create's supplied gas is taken by the instruction itself, not through
					// its listed cost: add what was supplied (seen at the frame's entry, or all
					// but one 64th when no frame was entered - EIP-150, every fork simulated here)
					avail := a.StepGas - a.StepCost
					supplied := avail - avail/64
					if a.Frame != nil {
						supplied = a.Frame.Gas
					}
					a.Supplied = supplied
					a.Back = e.Gas - (avail - supplied)
				}
			}
			delete(lastStepAt, depth)
			// pop from the recorded-attempt cursor if still there
			for i := len(attStack) - 1; i >= 0; i-- {
				if attStack[i] == a {
					attStack = attStack[:i]
					break
				}
			}
		}
	}

	for i := range evs {
		e := &evs[i]
		if e.Ex != ex {
			continue
		}
		switch e.K {
		case evTxBegin:
			tx = int(e.N)
			jpOn = true
			stack = stack[:0]
			attStack = attStack[:0]
			lastStepAt = map[int]*Attempt{}
			snapSeq = -1
		case evInject:
			if e.Name == "jp-off" {
				jpOn = false
			} else if e.Name == "jp-on" {
				jpOn = true
			}
		case evDB:
			// (rollback scopes start at the issuing instruction, not at the system's own Snapshot)
		case evStart, evEnter:
			f := &Frame{Ex: ex, Tx: tx, Top: e.K == evStart, Typ: e.Typ, Create: e.Create, From: e.From, To: e.To, In: e.In, Gas: e.Gas,
				Value: e.Value, EnterSeq: e.Seq, ExitSeq: -1, CodeLen: int(e.N), IsPre: e.N2 == 1, JPOn: jpOn, SnapSeq: snapSeq, SnapLogs: snapLogs,
				InAspect: aspectDepth > 0}
			if e.Name == "jpoff" {
				f.JPOn = false
			}
			if e.Typ == 0xff && e.K == evEnter {
				// the balance-sweep pseudo-frame of SELFDESTRUCT opens no rollback scope
				f.SnapSeq = -1
			} else {
				snapSeq = -1
			}
			if e.K == evStart {
				if e.Create {
					f.Typ = 0xf0
				} else {
					f.Typ = 0xf1
				}
			}
			if f.Typ == 0xff {
				f.SelfDes = true
			}
			if len(stack) > 0 {
				f.Parent = stack[len(stack)-1]
				f.Parent.Kids = append(f.Parent.Kids, f)
				f.Depth = f.Parent.Depth + 1
				if len(f.Parent.AspIn) > len(f.Parent.AspOut) {
					// issued by an Aspect running in the parent's join point: the interpreter
					// depth is the one the parent's own instructions have
					f.Depth = f.Parent.Depth
					f.FromAspect = true
				}
			} else {
				f.Depth = 1
				if e.K == evEnter && aspectDepth == 0 {
					h.Problems = append(h.Problems, fmt.Sprintf("seq %d: enter event with no open frame", e.Seq))
				}
			}
			if e.K == evStart {
				h.Roots = append(h.Roots, f)
			}
			// bind to the attempt that issued it
			if !f.SelfDes {
				var a *Attempt
				if f.Parent != nil && !f.FromAspect {
					a = lastStepAt[f.Parent.Depth]
				}
				if e.K == evStart {
					for _, t := range h.Attempts {
						if t.Top && t.Tx == tx && t.Frame == nil {
							a = t
						}
					}
				}
				if a != nil && a.Frame == nil {
					a.Frame = f
					f.Attempt = a
				}
			}
			h.Frames = append(h.Frames, f)
			stack = append(stack, f)
		case evEnd, evExit:
			if len(stack) == 0 {
				h.Problems = append(h.Problems, fmt.Sprintf("seq %d: %s with no open frame", e.Seq, e.K))
				continue
			}
			f := stack[len(stack)-1]
			stack = stack[:len(stack)-1]
			if (e.K == evEnd) != f.Top {
				h.Problems = append(h.Problems, fmt.Sprintf("seq %d: %s closes a frame opened by %v", e.Seq, e.K, f.Top))
			}
			f.Closed, f.ExitSeq, f.Out, f.GasUsed, f.Err = true, e.Seq, e.Out, e.GasUsed, e.Err
		case evStep, evFault:
			closeOutcome(e.Depth, e)
			if len(stack) > 0 {
				f := stack[len(stack)-1]
				if e.K == evStep {
					f.Steps = append(f.Steps, e)
				}
				if f.First == nil {
					f.First = e
				}
			}
			if e.K == evStep && isJournalOp(e.Op) {
				if h.JournalAt == nil {
					h.JournalAt = map[int]*Attempt{}
				}
				if len(attStack) > 0 {
					h.JournalAt[e.Seq] = attStack[len(attStack)-1]
				}
				lastJournal[e.Depth] = e.Seq
			}
			if e.K == evFault {
				if s, ok := lastJournal[e.Depth]; ok {
					if h.Faulted == nil {
						h.Faulted = map[int]bool{}
					}
					h.Faulted[s] = true
				}
			}
			if e.K == evStep && !isJournalOp(e.Op) {
				delete(lastJournal, e.Depth)
			}
			if e.K == evStep && e.Err == "" && isCallOp(e.Op) {
				snapSeq, snapLogs = e.Seq, 0
				a := &Attempt{Ex: ex, Tx: tx, Op: e.Op, Caller: e.Self, StepSeq: e.Seq, StepGas: e.Gas, StepCost: e.Cost, Depth: e.Depth, Node: -1,
					InAspect: aspectDepth > 0, pc: e.PC}
				st := e.Stack
				n := len(st)
				get := func(k int) uint256.Int {
					if n-1-k >= 0 {
						return st[n-1-k]
					}
					return uint256.Int{}
				}
				switch e.Op {
				case 0xf1, 0xf2:
					t, v, io, is := get(1), get(2), get(3), get(4)
					a.Target = common.Address(t.Bytes20())
					a.Value = &v
					a.Input = memSlice(e.Mem, io.Uint64(), is.Uint64())
				case 0xf4, 0xfa:
					t, io, is := get(1), get(2), get(3)
					a.Target = common.Address(t.Bytes20())
					a.Input = memSlice(e.Mem, io.Uint64(), is.Uint64())
				case 0xf0, 0xf5:
					v, io, is := get(0), get(1), get(2)
					a.Value = &v
					a.Input = memSlice(e.Mem, io.Uint64(), is.Uint64())
				}
				if len(attStack) > 0 {
					a.Parent = attStack[len(attStack)-1]
				}
				h.Attempts = append(h.Attempts, a)
				lastStepAt[e.Depth] = a
				if a.Recorded() {
					attStack = append(attStack, a)
				}
			}
		case evProvider:
			if len(stack) > 0 {
				f := stack[len(stack)-1]
				f.Prov = append(f.Prov, e)
			} else {
				h.Problems = append(h.Problems, fmt.Sprintf("seq %d: provider event with no open frame", e.Seq))
			}
		case evAspectEnter:
			aspectDepth++
			if len(stack) > 0 {
				f := stack[len(stack)-1]
				f.AspIn = append(f.AspIn, e)
			}
		case evAspectExit:
			aspectDepth--
			snapSeq = -1 // a host call refused before entry leaves no scope behind
			if len(stack) > 0 {
				f := stack[len(stack)-1]
				f.AspOut = append(f.AspOut, e)
			}
		case evHost:
			if e.Name == "top" || e.Name == "staticCall" {
				snapSeq, snapLogs = e.Seq, 0
			}
			if e.Name == "top" {
				// harness announces a top-level entry: it is a recorded attempt when call/create
				a := &Attempt{Ex: ex, Tx: tx, Top: true, Op: byte(e.N), Caller: e.From, Target: e.To, Input: e.Val, Node: -1}
				a.Value = new(uint256.Int).SetBytes(e.Val2)
				a.StepGas = e.N2
				h.Attempts = append(h.Attempts, a)
				if a.Recorded() {
					attStack = append(attStack, a)
				}
			}
		case evTxDone:
			for _, a := range h.Attempts {
				if a.Top && a.Tx == tx {
					a.TopRet, a.TopLeft, a.TopErr = e.Out, e.Gas, e.Err
				}
			}
			if len(stack) != 0 && e.Name == "" {
				h.Problems = append(h.Problems, fmt.Sprintf("seq %d: entry point returned with %d frames still open", e.Seq, len(stack)))
			}
		}
	}
	return h
}

func (a *Attempt) pcOf() uint64 { return a.pc }

func (a *Attempt) cancel(h *History) {
	for i := len(h.Attempts) - 1; i >= 0; i-- {
		if h.Attempts[i] == a {
			h.Attempts = append(h.Attempts[:i], h.Attempts[i+1:]...)
			return
		}
	}
}
