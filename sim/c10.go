package main

// C10: shadow journal. At every journal-opcode step the online monitor copies the
// operands, the storage address of the executing frame and - for value journals - the
// storage word read from the real StateDB at that instant. After the run the shadow
// (filed under the innermost CALL/CREATE attempt of the independent attempt log)
// is compared with the tracer's per-key, per-call-index lists.

import (
	"bytes"
	"fmt"
	"sort"

	avm "github.com/artela-network/artela-evm/vm"
	"github.com/ethereum/go-ethereum/common"
	"github.com/holiman/uint256"
)

type journalObs struct {
	seq    int
	tx     int
	op     byte
	self   common.Address
	slot   uint256.Int
	offset uint256.Int
	size   uint256.Int
	typeID common.Hash
	name   string // registrations: variable name from memory
	value  []byte // change journals: expected recorded bytes (nil when the shadow does not model it)
	model  bool
}

func (t *TreeOut) captureJournal(e *Ev) {
	st := e.Stack
	n := len(st)
	get := func(k int) uint256.Int {
		if n-1-k >= 0 {
			return st[n-1-k]
		}
		return uint256.Int{}
	}
	o := journalObs{seq: e.Seq, op: e.Op, self: e.Self, tx: len(t.Env.Results)}
	switch e.Op {
	case 0xe6: // VVJNAL: slot, offset, typeSize, typeId
		o.slot, o.offset, o.size = get(0), get(1), get(2)
		tid := get(3)
		o.typeID = tid.Bytes32()
		if o.offset.IsZero() && o.size.IsUint64() && o.size.Uint64() == 32 {
			w := t.Env.St.GetState(e.Self, o.slot.Bytes32())
			o.value = w[:]
			o.model = true
		}
	case 0xe7: // VRJNAL: slot, typeId
		o.slot = get(0)
		tid := get(1)
		o.typeID = tid.Bytes32()
		w := t.Env.St.GetState(e.Self, o.slot.Bytes32())
		if w[31]&1 == 0 && int(w[31]/2) < 32 {
			// well-formed short string: content is the first len bytes of the word
			l := int(w[31] / 2)
			ok := true
			for _, b := range w[l:31] {
				if b != 0 {
					ok = false
				}
			}
			if ok {
				o.value = append([]byte{}, w[:l]...)
				o.model = true
			}
		}
	case 0xe0, 0xe1: // RSVJNAL: namePtr, slot, typeId ; VSVJNAL: namePtr, slot, offset, typeId
		ptr := get(0)
		o.slot = get(1)
		if e.Op == 0xe1 {
			o.offset = get(2)
			tid := get(3)
			o.typeID = tid.Bytes32()
		} else {
			tid := get(2)
			o.typeID = tid.Bytes32()
		}
		ml := uint64(len(e.Mem))
		if ptr.IsUint64() && ptr.Uint64() <= ml && ml-ptr.Uint64() >= 32 {
			l := new(uint256.Int).SetBytes(e.Mem[ptr.Uint64() : ptr.Uint64()+32])
			if l.IsUint64() && l.Uint64() <= ml-ptr.Uint64()-32 {
				o.name = string(e.Mem[ptr.Uint64()+32 : ptr.Uint64()+32+l.Uint64()])
				o.model = true
			}
		}
	default:
		return
	}
	t.Journal = append(t.Journal, o)
}

type shadowKey struct {
	evm    *avm.EVM
	acct   common.Address
	slot   uint256.Int
	offset uint8
	typeID common.Hash
}

func (t *TreeOut) checkJournal() {
	if len(t.Journal) == 0 {
		return
	}
	t.expectedIndices()
	type shadow struct {
		lists map[uint64][][]byte
		name  string
		order int
	}
	sh := map[shadowKey]*shadow{}
	var keys []shadowKey
	registered := map[shadowKey]string{}
	unmodelled := map[shadowKey]bool{}
	for _, o := range t.Journal {
		if o.tx >= len(t.Env.EVMs) || t.H.Faulted[o.seq] || !o.offset.IsUint64() || o.offset.Uint64() > 31 {
			continue
		}
		k := shadowKey{t.Env.EVMs[o.tx], o.self, o.slot, uint8(o.offset.Uint64()), o.typeID}
		switch o.op {
		case 0xe0, 0xe1:
			if o.model {
				if _, ok := registered[k]; !ok {
					registered[k] = o.name
				}
			}
		case 0xe6, 0xe7:
			if !o.model {
				// a journal whose recorded bytes the shadow does not model (packed field, long
				// string): the whole key is left to C09's domain, its lists are not compared
				unmodelled[k] = true
				continue
			}
			a := t.H.JournalAt[o.seq]
			if a == nil || a.Node < 0 {
				t.add("C10", "C10.harness", "no-attempt", o.seq, "journal step at seq %d has no enclosing recorded attempt", o.seq)
				continue
			}
			s := sh[k]
			if s == nil {
				s = &shadow{lists: map[uint64][][]byte{}}
				sh[k] = s
				keys = append(keys, k)
			}
			l := s.lists[uint64(a.Node)]
			if len(l) > 0 && bytes.Equal(l[len(l)-1], o.value) {
				continue
			}
			s.lists[uint64(a.Node)] = append(l, o.value)
		}
	}
	for _, k := range keys {
		if unmodelled[k] {
			continue
		}
		s := sh[k]
		off := uint256.NewInt(uint64(k.offset))
		slot := k.slot
		got, err := k.evm.Tracer().StateChanges().Slot(k.acct, &slot, off, k.typeID)
		if err != nil || got == nil {
			t.add("C10", "C10.missing", "no-record", t.L.Len(), "account %x slot %s offset %d: %d journaled calls in the shadow but the tracer has no record (err %v)", k.acct, slot.Hex(), k.offset, len(s.lists), err)
			continue
		}
		ch := got.Changes()
		var idxs []uint64
		for i := range s.lists {
			idxs = append(idxs, i)
		}
		sort.Slice(idxs, func(a, b int) bool { return idxs[a] < idxs[b] })
		for _, i := range idxs {
			want, g := s.lists[i], ch[i]
			same := len(want) == len(g)
			for j := 0; same && j < len(g); j++ {
				same = bytes.Equal(want[j], g[j])
			}
			if !same {
				t.add("C10", "C10.attribution", "list-mismatch", t.L.Len(), "account %x slot %s: call %d recorded %x, the shadow journaled %x (storage address of the executing frame, innermost CALL/CREATE index)", k.acct, slot.Hex(), i, g, want)
			}
		}
		var extra []uint64
		for i := range ch {
			if _, ok := s.lists[i]; !ok {
				extra = append(extra, i)
			}
		}
		sort.Slice(extra, func(a, b int) bool { return extra[a] < extra[b] })
		for _, i := range extra {
			t.add("C10", "C10.attribution", "extra-index", t.L.Len(), "account %x slot %s: tracer has entries under call %d that the shadow never journaled there", k.acct, slot.Hex(), i)
		}
		// name path reaches the same lists
		if name, ok := registered[k]; ok {
			v := k.evm.Tracer().StateChanges().Variable(k.acct, name)
			if v != got {
				// another key may own the name (first registration wins): only a mismatch if this key registered it first
				first := true
				for k2, n2 := range registered {
					if n2 == name && k2 != k && k2.acct == k.acct && k2.evm == k.evm {
						first = false
					}
				}
				if first {
					t.add("C10", "C10.namepath", "differs", t.L.Len(), "account %x variable %q: lookup by name and lookup by slot reach different change lists", k.acct, name)
				}
			}
		}
	}
	// accounts must not mix: no record under an account that never journaled
	_ = fmt.Sprint
}

func init() {
	register(&Check{ID: "C10", Level: "exploration",
		Rule:   "call trees mixing CALL / DELEGATECALL / CALLCODE / STATICCALL / CREATE (journals in init code) and re-entrancy, the same variable journaled from different frames with repeating and alternating values; frames that later fail (terminators, F1 gas cuts, F2/F3 join-point faults) keep their entries; shadow = (storage address of executing frame, innermost CALL/CREATE attempt index from the step stream, storage word read at the StateDB seam); distinct = hash of event-kind sequence",
		Assume: []string{"only full-word value journals and well-formed short strings are shadowed; decoding of packed fields / long strings is C09 (not claimed)"},
		Real:   []string{"/repo/vm journal opcodes, state-change tracer, call tree", "aspect-core + WASM runtime (failing frames)", "go-ethereum StateDB"},
		Stub:   []string{"AspectProvider", "debug tracer = recorder"},
		Gen:    treeGen("C10", treeOpts{bindProb: 15, aspectKind: "noop", journal: true, multiTx: true}),
		Run: treeCheck("C10", func(tier string) enumOpts {
			if tier == "thorough" {
				return enumOpts{f2: true, f3: 2, cuts: 8}
			}
			return enumOpts{f2: true, f2one: true, f3: 0, cuts: 3}
		})})
}
