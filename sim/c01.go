package main

// C01 / C02 / C18(stream): lock-step refinement against go-ethereum v1.12.0 core/vm,
// with gas-cut fault injection (F1) at the intermediate gas values of the fault-free
// pass, host configuration axes (tracer on/off, join points on/off with nothing
// bound, raw vs wrapped StateDB) and seeded interleaving of unrelated executors.

import (
	"bytes"
	"fmt"
	"hash/fnv"
	"sort"
)

func isTracerKind(k evKind) bool {
	switch k {
	case evStep, evFault, evEnter, evExit, evStart, evEnd, evTxStart, evTxEnd:
		return true
	}
	return false
}

func tracerEvents(l *Log, ex int) []*Ev {
	var out []*Ev
	for i := range l.Evs {
		e := &l.Evs[i]
		if e.Ex == ex && isTracerKind(e.K) {
			out = append(out, e)
		}
	}
	return out
}

func sameBig(a, b *Ev) bool {
	if a.Value == nil || b.Value == nil {
		return a.Value == nil && b.Value == nil
	}
	return a.Value.Cmp(b.Value) == 0
}

func stackEq(a, b *Ev) bool {
	if a.StackLen != b.StackLen || a.StackH != b.StackH || len(a.Stack) != len(b.Stack) {
		return false
	}
	for i := range a.Stack {
		if !a.Stack[i].Eq(&b.Stack[i]) {
			return false
		}
	}
	return true
}

// compareStreams returns the first difference by category: "gas" (C02), "stream" (C18).
func compareStreams(s, r []*Ev) (gasDiff, streamDiff string, at int) {
	n := len(s)
	if len(r) < n {
		n = len(r)
	}
	for i := 0; i < n; i++ {
		a, b := s[i], r[i]
		if a.K != b.K {
			d := fmt.Sprintf("event %d: kind %s vs reference %s (sut: %s | ref: %s)", i, a.K, b.K, a.Render(), b.Render())
			return d, d, i
		}
		switch a.K {
		case evStep, evFault:
			if a.PC != b.PC || a.Op != b.Op || a.Gas != b.Gas || a.Cost != b.Cost || a.Depth != b.Depth || errTextClass(a.Err) != errTextClass(b.Err) {
				if gasDiff == "" {
					gasDiff = fmt.Sprintf("event %d %s: pc=%d op=%02x gas=%d cost=%d depth=%d err=%q; reference pc=%d op=%02x gas=%d cost=%d depth=%d err=%q",
						i, a.K, a.PC, a.Op, a.Gas, a.Cost, a.Depth, a.Err, b.PC, b.Op, b.Gas, b.Cost, b.Depth, b.Err)
					at = i
				}
			}
			if streamDiff == "" && (!stackEq(a, b) || a.MemLen != b.MemLen || a.MemH != b.MemH || a.RDataLen != b.RDataLen || a.RDataH != b.RDataH ||
				a.Self != b.Self || a.Caller != b.Caller || a.CodeAddr != b.CodeAddr) {
				streamDiff = fmt.Sprintf("event %d %s pc=%d op=%02x: stack/memory/returndata/contract differ: stack %d vs %d, mem %d/%x vs %d/%x, rdata %d/%x vs %d/%x",
					i, a.K, a.PC, a.Op, a.StackLen, b.StackLen, a.MemLen, a.MemH, b.MemLen, b.MemH, a.RDataLen, a.RDataH, b.RDataLen, b.RDataH)
				if at == 0 {
					at = i
				}
			}
		case evEnter, evStart:
			if a.Gas != b.Gas && gasDiff == "" {
				gasDiff = fmt.Sprintf("event %d %s: gas handed to frame %d, reference %d", i, a.K, a.Gas, b.Gas)
				at = i
			}
			if streamDiff == "" && (a.Typ != b.Typ || a.From != b.From || a.To != b.To || a.Create != b.Create || !bytes.Equal(a.In, b.In) || !sameBig(a, b)) {
				streamDiff = fmt.Sprintf("event %d: %s vs reference %s", i, a.Render(), b.Render())
			}
		case evExit, evEnd:
			if a.GasUsed != b.GasUsed && gasDiff == "" {
				gasDiff = fmt.Sprintf("event %d %s: gasUsed %d, reference %d", i, a.K, a.GasUsed, b.GasUsed)
				at = i
			}
			if streamDiff == "" && (!bytes.Equal(a.Out, b.Out) || errTextClass(a.Err) != errTextClass(b.Err)) {
				streamDiff = fmt.Sprintf("event %d: %s vs reference %s", i, a.Render(), b.Render())
			}
		case evTxStart, evTxEnd:
			if a.Gas != b.Gas && gasDiff == "" {
				gasDiff = fmt.Sprintf("event %d %s: gas %d, reference %d", i, a.K, a.Gas, b.Gas)
				at = i
			}
		}
		if gasDiff != "" && streamDiff != "" {
			return
		}
	}
	if len(s) != len(r) {
		d := fmt.Sprintf("stream lengths differ: %d events vs reference %d", len(s), len(r))
		if gasDiff == "" {
			gasDiff = d
		}
		if streamDiff == "" {
			streamDiff = d
		}
		at = n
	}
	return
}

func logsEq(a, b []LogRec) bool {
	if len(a) != len(b) {
		return false
	}
	for i := range a {
		if a[i].Addr != b[i].Addr || !bytes.Equal(a[i].Data, b[i].Data) || len(a[i].Topics) != len(b[i].Topics) {
			return false
		}
		for j := range a[i].Topics {
			if a[i].Topics[j] != b[i].Topics[j] {
				return false
			}
		}
	}
	return true
}

// compareResult: "" if equal. gasOnly selects leftover gas / refund (C02) vs the rest (C01).
func compareResult(s, r *TxResult) (res string, gas string) {
	if s.Panic != "" && r.Panic != "" {
		return // both implementations reject this host configuration the same way
	}
	if s.Panic != "" {
		res = fmt.Sprintf("system under test panicked at %s: %s", s.PanicSite, s.Panic)
		return
	}
	if r.Panic != "" {
		res = "reference panicked but system under test did not: " + r.Panic
		return
	}
	if !bytes.Equal(s.Ret, r.Ret) {
		res = fmt.Sprintf("return data %x, reference %x", s.Ret, r.Ret)
	} else if s.Class != r.Class {
		res = fmt.Sprintf("failure class %s, reference %s", s.Class, r.Class)
	} else if s.Created != r.Created {
		res = fmt.Sprintf("created address %x, reference %x", s.Created, r.Created)
	} else if !logsEq(s.Logs, r.Logs) {
		res = fmt.Sprintf("logs differ: %d vs reference %d", len(s.Logs), len(r.Logs))
	} else if s.Root != r.Root {
		res = fmt.Sprintf("post-state root %x, reference %x", s.Root, r.Root)
	}
	if s.GasLeft != r.GasLeft {
		gas = fmt.Sprintf("leftover gas %d, reference %d", s.GasLeft, r.GasLeft)
	} else if s.Refund != r.Refund {
		gas = fmt.Sprintf("refund counter %d, reference %d", s.Refund, r.Refund)
	}
	return
}

type diffRes struct {
	sl, rl   *Log
	suts     []*SutEnv
	refs     []*RefEnv
	sched    *Scheduler
	resDiff  string // C01
	gasDiff  string // C02
	strDiff  string // C18
	firstOp  byte
	topSteps int
	// offDomain: a journal-range byte was executed (see diffOnce)
	offDomain bool
}

type sutOpts struct {
	tracer bool
	jpOff  bool
	noDB   bool
}

func runSuts(sc *Scenario, o sutOpts) (*Log, []*SutEnv, *Scheduler) {
	l := NewLog()
	var suts []*SutEnv
	for ex := range sc.Execs {
		e := NewSutEnv(sc, ex, l, o.tracer)
		e.NoDB = o.noDB
		suts = append(suts, e)
	}
	if o.jpOff {
		for ex := range sc.Execs {
			for i := range sc.Execs[ex].Txs {
				sc.Execs[ex].Txs[i].JPOff = true
			}
		}
	}
	var sched *Scheduler
	if len(sc.Execs) > 1 {
		sched = NewScheduler(sc.Sched, l)
		l.sched = sched
		for _, e := range suts {
			e := e
			sched.Spawn(fmt.Sprintf("ex%d", e.Ex), e.RunAll)
		}
		sched.Run()
		l.sched = nil
	} else {
		for _, e := range suts {
			e.RunAll()
		}
	}
	return l, suts, sched
}

func diffOnce(sc *Scenario) *diffRes {
	d := &diffRes{}
	d.sl, d.suts, d.sched = runSuts(sc, sutOpts{tracer: true})
	d.rl = NewLog()
	for ex := range sc.Execs {
		r := NewRefEnv(sc, ex, d.rl, true)
		r.RunAll()
		d.refs = append(d.refs, r)
	}
	for ex := range sc.Execs {
		s, r := d.suts[ex], d.refs[ex]
		for i := range s.Results {
			rd, gd := compareResult(&s.Results[i], &r.Results[i])
			if rd != "" && d.resDiff == "" {
				d.resDiff = fmt.Sprintf("executor %d tx %d (%s): %s", ex, i, sc.Execs[ex].Txs[i].Kind, rd)
			}
			if gd != "" && d.gasDiff == "" {
				d.gasDiff = fmt.Sprintf("executor %d tx %d (%s): %s", ex, i, sc.Execs[ex].Txs[i].Kind, gd)
			}
		}
		se, re := tracerEvents(d.sl, ex), tracerEvents(d.rl, ex)
		g, st, at := compareStreams(se, re)
		if g != "" && d.gasDiff == "" {
			d.gasDiff = fmt.Sprintf("executor %d: %s", ex, g)
		}
		if st != "" && d.strDiff == "" {
			d.strDiff = fmt.Sprintf("executor %d: %s", ex, st)
		}
		if (g != "" || st != "") && at < len(se) && d.firstOp == 0 {
			d.firstOp = se[at].Op
		}
		// C01/C02/C18 are stated for standard opcodes only. A raw PUSHn byte can swallow
		// the following macros as immediate data and so shift decoding into what the
		// assembler wrote as PUSH data; if that makes either interpreter execute a byte in
		// the journal range the program is outside the domain of these properties.
		for _, evs := range [][]*Ev{se, re} {
			for _, e := range evs {
				if (e.K == evStep || e.K == evFault) && e.Op >= 0xe0 && e.Op <= 0xe7 {
					d.offDomain = true
				}
			}
		}
	}
	return d
}

func shapeHash(l *Log) (uint64, int) {
	h := fnv.New64a()
	steps := 0
	for i := range l.Evs {
		e := &l.Evs[i]
		switch e.K {
		case evStep:
			steps++
			h.Write([]byte{byte(e.K), e.Op, byte(e.Depth)})
		case evExit, evEnd:
			h.Write([]byte{byte(e.K), byte(len(e.Err))})
		case evProvider, evAspectEnter, evAspectExit, evInject:
			h.Write([]byte{byte(e.K), byte(len(e.Err)), byte(e.N)})
		}
	}
	return h.Sum64(), steps
}

// cutList derives gas limits for tx i from the fault-free pass.
func cutList(l *Log, ex int, res *TxResult, G uint64) (top []uint64, nested [][2]uint64) {
	var prevTop uint64
	havePrev := false
	sawNested := false
	for k := res.EvFrom; k < res.EvTo && k < len(l.Evs); k++ {
		e := &l.Evs[k]
		if e.Ex != ex || e.K != evStep {
			continue
		}
		if e.Depth == 1 {
			used := G - e.Gas
			if havePrev && sawNested && used > prevTop+3 {
				nested = append(nested, [2]uint64{prevTop, used})
			}
			top = append(top, used)
			prevTop = used
			havePrev = true
			sawNested = false
		} else {
			sawNested = true
		}
	}
	return
}

func withCut(sc *Scenario, ex, tx int, limit uint64) *Scenario {
	c := sc.Clone()
	c.Execs = c.Execs[ex : ex+1]
	c.Execs[0].Txs = c.Execs[0].Txs[:tx+1]
	c.Faults = append(c.Faults, Fault{Kind: "gas", Ex: 0, Tx: tx, N: limit})
	return c
}

func hasGasFault(sc *Scenario) bool {
	for _, f := range sc.Faults {
		if f.Kind == "gas" {
			return true
		}
	}
	return false
}

func sigOp(op byte) string { return fmt.Sprintf("op%02x", op) }

func diffCheck(prop string) func(sc *Scenario, st *Stats) []Violation {
	return func(sc *Scenario, st *Stats) []Violation {
		var vs []Violation
		add := func(rule, sig, msg string, scn *Scenario) {
			vs = append(vs, Violation{Prop: prop, Rule: rule, Sig: sig, Msg: msg, Sc: scn})
		}
		report := func(d *diffRes, tag string, scn *Scenario) {
			if d.offDomain {
				st.Probes["skipped-journal-byte-executed"]++
				return
			}
			switch prop {
			case "C01":
				if d.resDiff != "" {
					add("C01.result"+tag, sigOp(d.firstOp), d.resDiff, scn)
				}
			case "C02":
				if d.gasDiff != "" {
					add("C02.gas"+tag, sigOp(d.firstOp), d.gasDiff, scn)
				}
			case "C18":
				if d.strDiff != "" {
					add("C18.stream"+tag, sigOp(d.firstOp), d.strDiff, scn)
				}
			}
		}
		d := diffOnce(sc)
		st.AbsorbLog(d.sl)
		h, steps := shapeHash(d.sl)
		st.Shape(h, steps >= 5)
		if d.sched != nil {
			st.Inter[d.sched.InterleavingHash()]++
			if d.sched.Switches > 0 {
				st.Probes["executors-interleaved"]++
			}
		}
		report(d, "", nil)
		if hasGasFault(sc) || len(vs) > 0 {
			return vs
		}
		// F1: gas cuts aimed at the intermediate gas values of the fault-free pass
		if len(sc.Execs) == 1 && sc.P("nocuts", 0) == 0 {
			r := NewRNG(sc.Seed ^ 0xc07)
			maxCuts := sc.P("cuts", 8)
			spent := 0
			for i := range d.suts[0].Results {
				res := &d.suts[0].Results[i]
				G := sc.Execs[0].Txs[i].Gas
				top, nested := cutList(d.sl, 0, res, G)
				var limits []uint64
				for _, u := range top {
					for _, dlt := range []int64{-1, 0, 1} {
						v := int64(u) + dlt
						if v > 0 && uint64(v) < G {
							limits = append(limits, uint64(v))
						}
					}
				}
				nestedFrom := len(limits)
				for _, iv := range nested {
					for k := 0; k < 3; k++ {
						limits = append(limits, iv[0]+1+uint64(r.Intn(int(iv[1]-iv[0]-1))))
					}
				}
				if len(limits) == 0 {
					continue
				}
				var chosen []int
				if maxCuts <= 0 && len(limits) > 900 {
					maxCuts = 300
				}
				// step budget per transaction: every cut re-executes both interpreters up to the
				// cut, so a 100k-step program times several hundred cuts would hold one worker
				// for the better part of an hour (seen in a thorough pass) - sample instead
				if budget := 3_000_000/(d.sl.Len()+1) + 6; (maxCuts <= 0 && len(limits) > budget) || maxCuts > budget {
					maxCuts = budget
				}
				if maxCuts <= 0 || len(limits) <= maxCuts {
					for k := range limits {
						chosen = append(chosen, k)
					}
				} else {
					for k := 0; k < maxCuts; k++ {
						if k%3 == 2 && nestedFrom < len(limits) {
							// every third cut lands inside a nested frame when there is one
							chosen = append(chosen, nestedFrom+r.Intn(len(limits)-nestedFrom))
						} else {
							chosen = append(chosen, r.Intn(len(limits)))
						}
					}
					sort.Ints(chosen)
				}
				for _, k := range chosen {
					if spent > 4_000_000 {
						// whole-scenario budget of re-executed events (a cut on transaction i re-runs
						// transactions 0..i on both interpreters)
						st.Probes["gas-cut-budget-exhausted"]++
						break
					}
					c := withCut(sc, 0, i, limits[k])
					dc := diffOnce(c)
					spent += dc.sl.Len() + dc.rl.Len()
					st.Steps += dc.sl.Len()
					st.Faults["F1.gas-cut"]++
					if k >= nestedFrom {
						st.Probes["gas-cut-inside-nested-frame"]++
					}
					if dc.suts[0].Results[i].Class == "oog" {
						st.Probes["gas-cut-caused-top-level-oog"]++
					}
					st.Extra["cut-runs"]++
					report(dc, ".cut", c)
					if len(vs) > 0 {
						return vs
					}
				}
			}
		}
		// host configuration axes must not change anything (C01 only)
		if prop == "C01" && !d.offDomain {
			variants := []struct {
				name string
				o    sutOpts
			}{{"tracer-off", sutOpts{}}, {"jp-off", sutOpts{tracer: true, jpOff: true}}, {"raw-statedb-jp-off", sutOpts{noDB: true, jpOff: true}}}
			for _, v := range variants {
				c := sc.Clone()
				l, suts, _ := runSuts(c, v.o)
				st.Steps += l.Len()
				st.Extra["config-variant-runs"]++
				for ex := range suts {
					for i := range suts[ex].Results {
						rd, gd := compareResult(&suts[ex].Results[i], &d.refs[ex].Results[i])
						if rd == "" {
							rd = gd
						}
						if rd != "" {
							add("C01.config."+v.name, "tx-"+sc.Execs[ex].Txs[i].Kind, fmt.Sprintf("configuration %s, executor %d tx %d: %s", v.name, ex, i, rd), nil)
							return vs
						}
					}
				}
			}
		}
		return vs
	}
}

func genC01(seed uint64, tier string) *Scenario {
	sc := genStdScenario(seed, "C01", "Shanghai")
	r := NewRNG(seed ^ 0x5eed)
	if r.P(1, 5) {
		// unrelated executors interleaved at seam-event granularity
		n := 1 + r.Intn(2)
		for k := 0; k < n; k++ {
			o := genStdScenario(mix64(seed+uint64(k)+1), "C01", sc.Fork)
			// executors share the world definition: merge the other world's contracts under fresh addresses is not
			// needed - each executor has its own StateDB built from the same account list
			sc.Execs = append(sc.Execs, o.Execs[0])
		}
		sc.Sched = Sched{SwitchPPM: pick(r, []int{10, 100, 500}), Seed: r.U64()}
	}
	if tier == "thorough" {
		sc.Params = map[string]int{"cuts": 0}
	}
	return sc
}

func init() {
	real := []string{"/repo/vm interpreter, EVM, StateDB adaptor (working tree)", "/repo/core Transfer/CanTransfer", "go-ethereum v1.12.0 core/vm (reference)", "go-ethereum v1.12.0 core/state over memory DB", "aspect-core djpm dispatch (join points on, nothing bound)"}
	stub := []string{"AspectProvider (empty binding store)", "block hash function", "scheduler (seeded baton)"}
	register(&Check{ID: "C01", Level: "exploration",
		Rule:   "scenario = generated world (1-4 mutually calling contracts, fork Frontier..Shanghai, extra EIPs) x 1-3 transactions over the six entry points; distinct = hash of the (opcode, depth) step sequence plus frame outcomes; non-trivial = at least 5 instructions executed; each scenario is additionally re-run under sampled (quick) or all (thorough) gas cuts and under three host configurations",
		Assume: []string{"go-ethereum v1.12.0 core/vm and core/state are the reference and are trusted", "Artela precompile addresses 0x64-0x66 and journal opcodes excluded (not standard)"},
		Real:   real, Stub: stub, Gen: genC01, Run: diffCheck("C01"), Runs: map[string]int{"quick": 3000, "thorough": 40000}})
	register(&Check{ID: "C02", Level: "exploration",
		Rule:   "same scenarios as C01; oracle = per-step (pc, op, gas, cost, depth, error), per-frame gas given/used, refund, leftover; gas-cut faults at limits one below, on and one above every top-frame intermediate gas value plus sampled limits inside nested frames (quick: 8 sampled cuts per tx; thorough: all); distinct = hash of step sequence; non-trivial = >= 5 instructions",
		Assume: []string{"go-ethereum v1.12.0 is the reference"},
		Real:   real, Stub: stub, Gen: func(seed uint64, tier string) *Scenario {
			sc := genStdScenario(seed, "C02", "Shanghai")
			if tier == "thorough" {
				sc.Params = map[string]int{"cuts": 0}
			} else {
				sc.Params = map[string]int{"cuts": 12}
			}
			return sc
		}, Run: diffCheck("C02"), Runs: map[string]int{"quick": 3000, "thorough": 40000}})
}
