package main

// simdb wraps the real go-ethereum StateDB: it forwards every call, logs mutating
// calls with pre- and post-images read back from the real StateDB, counts reads
// (the C20 budget), and is a yield point for the scheduler.

import (
	"math/big"

	"github.com/ethereum/go-ethereum/common"
	"github.com/ethereum/go-ethereum/core/state"
	"github.com/ethereum/go-ethereum/core/types"
	"github.com/ethereum/go-ethereum/params"
)

type budgetExceeded struct{ reads int }

type SimDB struct {
	*state.StateDB
	L  *Log
	Ex int
	// reads since the last step event; -1 budget = unlimited
	Reads      int
	ReadBudget int
	Quiet      bool // do not log reads as events (only mutations and snapshots)
	TotalReads int
}

func NewSimDB(st *state.StateDB, l *Log, ex int) *SimDB {
	return &SimDB{StateDB: st, L: l, Ex: ex, ReadBudget: -1, Quiet: true}
}

func (d *SimDB) read(name string, a common.Address) {
	d.Reads++
	d.TotalReads++
	if d.ReadBudget >= 0 && d.Reads > d.ReadBudget {
		panic(budgetExceeded{d.Reads})
	}
	if !d.Quiet {
		d.L.Add(Ev{Ex: d.Ex, K: evDB, Name: name, From: a})
	} else if d.L.sched != nil {
		d.L.sched.Yield(d.Ex, evDB)
	}
}

func (d *SimDB) mut(name string, a common.Address, key, pre, post []byte) {
	d.L.Add(Ev{Ex: d.Ex, K: evDB, Name: name, From: a, Key: key, Val: pre, Val2: post})
}

func (d *SimDB) CreateAccount(a common.Address) {
	pre := d.StateDB.GetBalance(a).Bytes()
	d.StateDB.CreateAccount(a)
	// an account (re)creation carries the balance over; it is logged as a balance mutation so
	// that the rollback model sees one location per account balance
	d.mut("Balance", a, nil, pre, d.StateDB.GetBalance(a).Bytes())
}

func (d *SimDB) SubBalance(a common.Address, v *big.Int) {
	pre := d.StateDB.GetBalance(a).Bytes()
	d.StateDB.SubBalance(a, v)
	d.mut("Balance", a, nil, pre, d.StateDB.GetBalance(a).Bytes())
}

func (d *SimDB) AddBalance(a common.Address, v *big.Int) {
	pre := d.StateDB.GetBalance(a).Bytes()
	d.StateDB.AddBalance(a, v)
	d.mut("Balance", a, nil, pre, d.StateDB.GetBalance(a).Bytes())
}

func (d *SimDB) GetBalance(a common.Address) *big.Int {
	d.read("GetBalance", a)
	return d.StateDB.GetBalance(a)
}

func (d *SimDB) GetNonce(a common.Address) uint64 {
	d.read("GetNonce", a)
	return d.StateDB.GetNonce(a)
}

func u64b(v uint64) []byte { return new(big.Int).SetUint64(v).Bytes() }

func (d *SimDB) SetNonce(a common.Address, n uint64) {
	pre := d.StateDB.GetNonce(a)
	d.StateDB.SetNonce(a, n)
	d.mut("Nonce", a, nil, u64b(pre), u64b(d.StateDB.GetNonce(a)))
}

func (d *SimDB) GetCodeHash(a common.Address) common.Hash {
	d.read("GetCodeHash", a)
	return d.StateDB.GetCodeHash(a)
}

func (d *SimDB) GetCode(a common.Address) []byte {
	d.read("GetCode", a)
	return d.StateDB.GetCode(a)
}

func (d *SimDB) SetCode(a common.Address, c []byte) {
	pre := d.StateDB.GetCodeHash(a)
	d.StateDB.SetCode(a, c)
	post := d.StateDB.GetCodeHash(a)
	d.mut("Code", a, nil, pre[:], post[:])
}

func (d *SimDB) GetCodeSize(a common.Address) int {
	d.read("GetCodeSize", a)
	return d.StateDB.GetCodeSize(a)
}

func (d *SimDB) GetCommittedState(a common.Address, k common.Hash) common.Hash {
	d.read("GetCommittedState", a)
	return d.StateDB.GetCommittedState(a, k)
}

func (d *SimDB) GetState(a common.Address, k common.Hash) common.Hash {
	d.read("GetState", a)
	return d.StateDB.GetState(a, k)
}

func (d *SimDB) SetState(a common.Address, k, v common.Hash) {
	pre := d.StateDB.GetState(a, k)
	d.StateDB.SetState(a, k, v)
	post := d.StateDB.GetState(a, k)
	d.mut("State", a, k[:], pre[:], post[:])
}

func (d *SimDB) GetTransientState(a common.Address, k common.Hash) common.Hash {
	d.read("GetTransientState", a)
	return d.StateDB.GetTransientState(a, k)
}

func (d *SimDB) SetTransientState(a common.Address, k, v common.Hash) {
	pre := d.StateDB.GetTransientState(a, k)
	d.StateDB.SetTransientState(a, k, v)
	post := d.StateDB.GetTransientState(a, k)
	d.mut("Transient", a, k[:], pre[:], post[:])
}

func bb(v bool) []byte {
	if v {
		return []byte{1}
	}
	return []byte{0}
}

func (d *SimDB) Suicide(a common.Address) bool {
	pre := d.StateDB.HasSuicided(a)
	preBal := d.StateDB.GetBalance(a).Bytes()
	r := d.StateDB.Suicide(a)
	d.mut("Suicide", a, nil, bb(pre), bb(d.StateDB.HasSuicided(a)))
	d.mut("Balance", a, nil, preBal, d.StateDB.GetBalance(a).Bytes())
	return r
}

func (d *SimDB) HasSuicided(a common.Address) bool {
	d.read("HasSuicided", a)
	return d.StateDB.HasSuicided(a)
}

func (d *SimDB) Exist(a common.Address) bool {
	d.read("Exist", a)
	return d.StateDB.Exist(a)
}

func (d *SimDB) Empty(a common.Address) bool {
	d.read("Empty", a)
	return d.StateDB.Empty(a)
}

func (d *SimDB) RevertToSnapshot(id int) {
	d.StateDB.RevertToSnapshot(id)
	d.L.Add(Ev{Ex: d.Ex, K: evDB, Name: "Revert", N: uint64(id), N2: uint64(len(d.StateDB.Logs()))})
}

func (d *SimDB) Snapshot() int {
	id := d.StateDB.Snapshot()
	d.L.Add(Ev{Ex: d.Ex, K: evDB, Name: "Snapshot", N: uint64(id), N2: uint64(len(d.StateDB.Logs()))})
	return id
}

func (d *SimDB) AddLog(l *types.Log) {
	d.StateDB.AddLog(l)
	d.L.Add(Ev{Ex: d.Ex, K: evDB, Name: "Log", From: l.Address, N: uint64(len(d.StateDB.Logs()))})
}

func (d *SimDB) Prepare(rules params.Rules, sender, coinbase common.Address, dest *common.Address, precompiles []common.Address, txAccesses types.AccessList) {
	d.StateDB.Prepare(rules, sender, coinbase, dest, precompiles, txAccesses)
}
