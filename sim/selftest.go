package main

// Determinism self-test: the same run range of a check is executed in fresh worker
// processes at GOMAXPROCS 1, 4 and 16 (and twice at 4); the folded run digests must be
// identical. Any difference is harness trouble (exit 2), never a property verdict.

import (
	"encoding/json"
	"fmt"
	"os"
	"os/exec"
	"path/filepath"
	"strconv"
)

func selftestRange(id, tier string, base uint64, from, to int) (bool, string) {
	self, _ := os.Executable()
	tmp, err := os.MkdirTemp(filepath.Join(verifRoot(), "bin"), "self-"+id+"-")
	if err != nil {
		return false, err.Error()
	}
	defer os.RemoveAll(tmp)
	var digests []string
	for k, procs := range []int{1, 4, 16, 4} {
		out := filepath.Join(tmp, fmt.Sprintf("s%d.json", k))
		cmd := exec.Command(self, "worker", id, tier, strconv.FormatUint(base, 10), strconv.Itoa(from), strconv.Itoa(to), out)
		cmd.Env = append(os.Environ(), "GOMAXPROCS="+strconv.Itoa(procs), "GOGC=400")
		if ob, err := cmd.CombinedOutput(); err != nil {
			return false, fmt.Sprintf("worker failed: %v %s", err, tail(string(ob), 500))
		}
		b, err := os.ReadFile(out)
		if err != nil {
			return false, err.Error()
		}
		var wo WorkerOut
		if err := json.Unmarshal(b, &wo); err != nil {
			return false, err.Error()
		}
		digests = append(digests, wo.RunDigest)
	}
	for _, d := range digests[1:] {
		if d != digests[0] {
			return false, fmt.Sprintf("run digests differ across processes / GOMAXPROCS: %v", digests)
		}
	}
	return true, digests[0]
}

func selftestMain(args []string) int {
	ids := []string{}
	n := 200
	for _, a := range args {
		if v, err := strconv.Atoi(a); err == nil {
			n = v
		} else {
			ids = append(ids, a)
		}
	}
	if len(ids) == 0 {
		for id := range tierRuns {
			ids = append(ids, id)
		}
	}
	bad := 0
	for _, id := range ids {
		if _, ok := checks[id]; !ok {
			continue
		}
		os.Setenv("VERIF_NORACE", "1")
		ok, msg := selftestRange(id, "quick", 1, 0, n)
		if ok {
			fmt.Printf("selftest %s: %d runs x 4 processes deterministic (%s)\n", id, n, msg)
		} else {
			fmt.Printf("selftest %s: NOT deterministic: %s\n", id, msg)
			bad++
		}
	}
	if bad > 0 {
		return 2
	}
	return 0
}
