package main

// The event bus: every seam event of a run is appended to one log with a global
// sequence number. The recorder implements the debug-tracer interface of the system
// under test (plus the Aspect logger) and of the reference interpreter; both produce
// the same Ev type so that streams can be compared element by element.

import (
	"crypto/sha256"
	"encoding/binary"
	"fmt"
	"hash"
	"hash/fnv"
	"math/big"
	"os"

	actypes "github.com/artela-network/aspect-core/types"
	avm "github.com/artela-network/artela-evm/vm"
	"github.com/ethereum/go-ethereum/common"
	evm "github.com/ethereum/go-ethereum/core/vm"
	"github.com/holiman/uint256"
	"google.golang.org/protobuf/proto"
)

type evKind uint8

const (
	evStep evKind = iota + 1
	evFault
	evEnter
	evExit
	evStart
	evEnd
	evTxStart
	evTxEnd
	evAspectEnter
	evAspectExit
	evProvider
	evHost
	evDB
	evTransfer
	evInject
	evSwitch
	evTxBegin // harness: a transaction begins on an executor
	evTxDone  // harness: entry point returned
)

var evNames = map[evKind]string{evStep: "step", evFault: "fault", evEnter: "enter", evExit: "exit", evStart: "start",
	evEnd: "end", evTxStart: "txstart", evTxEnd: "txend", evAspectEnter: "aspect-enter", evAspectExit: "aspect-exit",
	evProvider: "provider", evHost: "host", evDB: "db", evTransfer: "transfer", evInject: "inject", evSwitch: "switch",
	evTxBegin: "txbegin", evTxDone: "txdone"}

func (k evKind) String() string { return evNames[k] }

type Ev struct {
	Seq int
	Ex  int
	K   evKind

	// step / fault
	PC       uint64
	Op       byte
	Gas      uint64
	Cost     uint64
	Depth    int
	Err      string
	Stack    []uint256.Int // bottom..top; only the top stackKeep items (see keepStack)
	StackLen int
	StackH   uint64
	MemLen   int
	MemH     uint64
	RDataLen int
	RDataH   uint64
	RData    []byte // copied only after call-like steps
	Mem      []byte // copied only for call/create/journal/log/mcopy steps
	Self     common.Address
	CodeAddr common.Address
	Caller   common.Address

	// enter / start
	Typ    byte
	From   common.Address
	To     common.Address
	Create bool
	In     []byte
	Value  *big.Int
	// exit / end
	Out     []byte
	GasUsed uint64

	// aspect enter/exit, provider, host, db
	JP     int64
	Aspect common.Address
	Req    []byte
	Name   string
	Key    []byte
	Val    []byte
	Val2   []byte
	N      uint64
	N2     uint64
}

func h64(b []byte) uint64 {
	if len(b) == 0 {
		return 0
	}
	h := fnv.New64a()
	h.Write(b)
	return h.Sum64()
}

func bigStr(v *big.Int) string {
	if v == nil {
		return "nil"
	}
	return v.String()
}

// keepStack records the stack of a step: its depth, a hash over all of it, and a copy of the
// top stackKeep items (enough for every operand any oracle looks at). A full copy of a
// 1024-item stack at every step of a loop is 32 KiB per event.
const stackKeep = 16

func (e *Ev) keepStack(stack []uint256.Int) {
	e.StackLen = len(stack)
	sh := fnv.New64a()
	for i := range stack {
		b := stack[i].Bytes32()
		sh.Write(b[:])
	}
	e.StackH = sh.Sum64()
	top := stack
	if len(top) > stackKeep {
		top = top[len(top)-stackKeep:]
	}
	e.Stack = append([]uint256.Int{}, top...)
}

// Render is the canonical text of an event; the run digest is the SHA-256 over it.
func (e *Ev) Render() string {
	switch e.K {
	case evStep, evFault:
		return fmt.Sprintf("%d %d %s pc=%d op=%02x gas=%d cost=%d d=%d err=%q st=%d/%x mem=%d/%x rd=%d/%x",
			e.Seq, e.Ex, e.K, e.PC, e.Op, e.Gas, e.Cost, e.Depth, e.Err, e.StackLen, e.StackH, e.MemLen, e.MemH, e.RDataLen, e.RDataH)
	case evEnter, evStart:
		return fmt.Sprintf("%d %d %s typ=%02x from=%x to=%x create=%v in=%d/%x gas=%d val=%s",
			e.Seq, e.Ex, e.K, e.Typ, e.From, e.To, e.Create, len(e.In), h64(e.In), e.Gas, bigStr(e.Value))
	case evExit, evEnd:
		return fmt.Sprintf("%d %d %s out=%d/%x used=%d err=%q", e.Seq, e.Ex, e.K, len(e.Out), h64(e.Out), e.GasUsed, e.Err)
	case evTxStart, evTxEnd:
		return fmt.Sprintf("%d %d %s gas=%d", e.Seq, e.Ex, e.K, e.Gas)
	case evAspectEnter:
		return fmt.Sprintf("%d %d %s jp=%d from=%x to=%x asp=%x in=%d/%x gas=%d val=%s req=%x",
			e.Seq, e.Ex, e.K, e.JP, e.From, e.To, e.Aspect, len(e.In), h64(e.In), e.Gas, bigStr(e.Value), h64(e.Req))
	case evAspectExit:
		return fmt.Sprintf("%d %d %s jp=%d gas=%d out=%d/%x err=%q", e.Seq, e.Ex, e.K, e.JP, e.Gas, len(e.Out), h64(e.Out), e.Err)
	default:
		return fmt.Sprintf("%d %d %s name=%s a=%x b=%x key=%x val=%x val2=%x n=%d n2=%d err=%q", e.Seq, e.Ex, e.K, e.Name, e.From, e.To,
			e.Key, e.Val, e.Val2, e.N, e.N2, e.Err)
	}
}

// Log is the per-run history. A single Log is shared by all executors of a run; the
// baton guarantees that only one goroutine appends at a time.
type Log struct {
	Evs    []Ev
	dig    hash.Hash
	lite   bool // digest only, do not retain events (large batches)
	n      int
	onEv   []func(*Ev) // online monitors
	sched  *Scheduler
	Faults map[string]int // fault kinds that actually fired
	Probes map[string]int
}

func NewLog() *Log {
	return &Log{dig: sha256.New(), Faults: map[string]int{}, Probes: map[string]int{}}
}

// dumpEvents (VERIF_DUMP=1, replay only) prints every event to stderr as it is recorded.
var dumpEvents = os.Getenv("VERIF_DUMP") != ""

func (l *Log) Add(e Ev) *Ev {
	e.Seq = l.n
	l.n++
	var b [8]byte
	s := e.Render()
	binary.LittleEndian.PutUint64(b[:], uint64(len(s)))
	l.dig.Write(b[:])
	l.dig.Write([]byte(s))
	if dumpEvents {
		fmt.Fprintf(os.Stderr, "ev %d %s\n", e.Seq, s)
	}
	var p *Ev
	if l.lite {
		p = &e
	} else {
		l.Evs = append(l.Evs, e)
		p = &l.Evs[len(l.Evs)-1]
	}
	for _, f := range l.onEv {
		f(p)
	}
	if l.sched != nil {
		l.sched.Yield(e.Ex, e.K)
	}
	return p
}

func (l *Log) Len() int { return l.n }

func (l *Log) Digest() string { return fmt.Sprintf("%x", l.dig.Sum(nil)) }

func (l *Log) Fired(kind string)  { l.Faults[kind]++ }
func (l *Log) Probe(name string)  { l.Probes[name]++ }

func cp(b []byte) []byte {
	if b == nil {
		return nil
	}
	return append([]byte{}, b...)
}

func cpBig(v *big.Int) *big.Int {
	if v == nil {
		return nil
	}
	return new(big.Int).Set(v)
}

// ---------------------------------------------------------------------------------
// Recorder on the system under test.

type SutRec struct {
	L      *Log
	Ex     int
	Light  bool // counters only (C20): no copies
	inner  avm.EVMLogger
	innerA actypes.AspectLogger
	env    *avm.EVM
	lastOp byte
	// Annot lets the owner annotate enter/start events online (code size of the target,
	// precompile flag, join-point switch) by reading the StateDB at that instant.
	Annot func(e *Ev)
	// OnStep is called for every instruction before it is logged (C20 budgets).
	OnStep func(e *Ev)
}

var (
	_ avm.EVMLogger        = (*SutRec)(nil)
	_ actypes.AspectLogger = (*SutRec)(nil)
)

func needMem(op byte) bool {
	switch {
	case op >= 0xf0 && op <= 0xf5, op == 0xfa: // create/call family, return
		return true
	case op >= 0xe0 && op <= 0xe7, op == 0xfd, op == 0x5e:
		return true
	}
	return false
}

func (r *SutRec) CaptureTxStart(gasLimit uint64) {
	if r.inner != nil {
		r.inner.CaptureTxStart(gasLimit)
	}
	r.L.Add(Ev{Ex: r.Ex, K: evTxStart, Gas: gasLimit})
}

func (r *SutRec) CaptureTxEnd(restGas uint64) {
	if r.inner != nil {
		r.inner.CaptureTxEnd(restGas)
	}
	r.L.Add(Ev{Ex: r.Ex, K: evTxEnd, Gas: restGas})
}

func (r *SutRec) CaptureStart(env *avm.EVM, from common.Address, to common.Address, create bool, input []byte, gas uint64, value *big.Int) {
	r.env = env
	if r.inner != nil {
		r.inner.CaptureStart(env, from, to, create, input, gas, value)
	}
	e := Ev{Ex: r.Ex, K: evStart, From: from, To: to, Create: create, In: cp(input), Gas: gas, Value: cpBig(value)}
	if r.Annot != nil {
		r.Annot(&e)
	}
	r.L.Add(e)
}

func (r *SutRec) CaptureEnd(output []byte, gasUsed uint64, err error) {
	if r.inner != nil {
		r.inner.CaptureEnd(output, gasUsed, err)
	}
	r.L.Add(Ev{Ex: r.Ex, K: evEnd, Out: cp(output), GasUsed: gasUsed, Err: errStr(err)})
}

func (r *SutRec) CaptureEnter(typ avm.OpCode, from common.Address, to common.Address, input []byte, gas uint64, value *big.Int) {
	if r.inner != nil {
		r.inner.CaptureEnter(typ, from, to, input, gas, value)
	}
	e := Ev{Ex: r.Ex, K: evEnter, Typ: byte(typ), From: from, To: to, In: cp(input), Gas: gas, Value: cpBig(value)}
	if r.Annot != nil {
		r.Annot(&e)
	}
	r.L.Add(e)
}

func (r *SutRec) CaptureExit(output []byte, gasUsed uint64, err error) {
	if r.inner != nil {
		r.inner.CaptureExit(output, gasUsed, err)
	}
	r.L.Add(Ev{Ex: r.Ex, K: evExit, Out: cp(output), GasUsed: gasUsed, Err: errStr(err)})
}

func (r *SutRec) step(k evKind, pc uint64, op byte, gas, cost uint64, stack []uint256.Int, mem []byte, rData []byte, depth int, err error,
	self, codeAddr, caller common.Address) {
	e := Ev{Ex: r.Ex, K: k, PC: pc, Op: op, Gas: gas, Cost: cost, Depth: depth, Err: errStr(err), MemLen: len(mem)}
	if !r.Light {
		e.keepStack(stack)
		e.MemH = h64(mem)
		e.RDataLen = len(rData)
		e.RDataH = h64(rData)
		e.Self, e.CodeAddr, e.Caller = self, codeAddr, caller
		if needMem(op) {
			e.Mem = cp(mem)
		}
		if len(rData) > 0 {
			e.RData = cp(rData)
		}
	}
	if r.OnStep != nil {
		r.OnStep(&e)
	}
	r.L.Add(e)
}

func (r *SutRec) CaptureState(pc uint64, op avm.OpCode, gas, cost uint64, scope *avm.ScopeContext, rData []byte, depth int, err error) {
	if r.inner != nil {
		r.inner.CaptureState(pc, op, gas, cost, scope, rData, depth, err)
	}
	var ca common.Address
	if scope.Contract.CodeAddr != nil {
		ca = *scope.Contract.CodeAddr
	}
	r.step(evStep, pc, byte(op), gas, cost, scope.Stack.Data(), scope.Memory.Data(), rData, depth, err,
		scope.Contract.Address(), ca, scope.Contract.Caller())
}

func (r *SutRec) CaptureFault(pc uint64, op avm.OpCode, gas, cost uint64, scope *avm.ScopeContext, depth int, err error) {
	if r.inner != nil {
		r.inner.CaptureFault(pc, op, gas, cost, scope, depth, err)
	}
	var ca common.Address
	if scope.Contract.CodeAddr != nil {
		ca = *scope.Contract.CodeAddr
	}
	r.step(evFault, pc, byte(op), gas, cost, scope.Stack.Data(), scope.Memory.Data(), nil, depth, err,
		scope.Contract.Address(), ca, scope.Contract.Caller())
}

func (r *SutRec) CaptureAspectEnter(jp actypes.JoinPointRunType, from, to, aspectId common.Address, input []byte, gas uint64, value *big.Int, execCtx proto.Message) {
	if r.innerA != nil {
		r.innerA.CaptureAspectEnter(jp, from, to, aspectId, input, gas, value, execCtx)
	}
	var req []byte
	if execCtx != nil {
		req, _ = proto.MarshalOptions{Deterministic: true, AllowPartial: true}.Marshal(execCtx)
	}
	r.L.Add(Ev{Ex: r.Ex, K: evAspectEnter, JP: int64(jp), From: from, To: to, Aspect: aspectId, In: cp(input), Gas: gas, Value: cpBig(value), Req: req})
}

func (r *SutRec) CaptureAspectExit(jp actypes.JoinPointRunType, result *actypes.AspectExecutionResult) {
	if r.innerA != nil {
		r.innerA.CaptureAspectExit(jp, result)
	}
	r.L.Add(Ev{Ex: r.Ex, K: evAspectExit, JP: int64(jp), Gas: result.Gas, Out: cp(result.Ret), Err: errStr(result.Err)})
}

func errStr(err error) string {
	if err == nil {
		return ""
	}
	return err.Error()
}

// ---------------------------------------------------------------------------------
// Recorder on the reference interpreter (go-ethereum v1.12.0).

type RefRec struct {
	L     *Log
	Ex    int
	inner evm.EVMLogger
}

var _ evm.EVMLogger = (*RefRec)(nil)

func (r *RefRec) CaptureTxStart(gasLimit uint64) {
	if r.inner != nil {
		r.inner.CaptureTxStart(gasLimit)
	}
	r.L.Add(Ev{Ex: r.Ex, K: evTxStart, Gas: gasLimit})
}

func (r *RefRec) CaptureTxEnd(restGas uint64) {
	if r.inner != nil {
		r.inner.CaptureTxEnd(restGas)
	}
	r.L.Add(Ev{Ex: r.Ex, K: evTxEnd, Gas: restGas})
}

func (r *RefRec) CaptureStart(env *evm.EVM, from common.Address, to common.Address, create bool, input []byte, gas uint64, value *big.Int) {
	if r.inner != nil {
		r.inner.CaptureStart(env, from, to, create, input, gas, value)
	}
	r.L.Add(Ev{Ex: r.Ex, K: evStart, From: from, To: to, Create: create, In: cp(input), Gas: gas, Value: cpBig(value)})
}

func (r *RefRec) CaptureEnd(output []byte, gasUsed uint64, err error) {
	if r.inner != nil {
		r.inner.CaptureEnd(output, gasUsed, err)
	}
	r.L.Add(Ev{Ex: r.Ex, K: evEnd, Out: cp(output), GasUsed: gasUsed, Err: errStr(err)})
}

func (r *RefRec) CaptureEnter(typ evm.OpCode, from common.Address, to common.Address, input []byte, gas uint64, value *big.Int) {
	if r.inner != nil {
		r.inner.CaptureEnter(typ, from, to, input, gas, value)
	}
	r.L.Add(Ev{Ex: r.Ex, K: evEnter, Typ: byte(typ), From: from, To: to, In: cp(input), Gas: gas, Value: cpBig(value)})
}

func (r *RefRec) CaptureExit(output []byte, gasUsed uint64, err error) {
	if r.inner != nil {
		r.inner.CaptureExit(output, gasUsed, err)
	}
	r.L.Add(Ev{Ex: r.Ex, K: evExit, Out: cp(output), GasUsed: gasUsed, Err: errStr(err)})
}

func (r *RefRec) step(k evKind, pc uint64, op byte, gas, cost uint64, scope *evm.ScopeContext, rData []byte, depth int, err error) {
	mem := scope.Memory.Data()
	e := Ev{Ex: r.Ex, K: k, PC: pc, Op: op, Gas: gas, Cost: cost, Depth: depth, Err: errStr(err)}
	e.keepStack(scope.Stack.Data())
	e.MemLen = len(mem)
	e.MemH = h64(mem)
	e.RDataLen = len(rData)
	e.RDataH = h64(rData)
	e.Self, e.Caller = scope.Contract.Address(), scope.Contract.Caller()
	if scope.Contract.CodeAddr != nil {
		e.CodeAddr = *scope.Contract.CodeAddr
	}
	if needMem(op) {
		e.Mem = cp(mem)
	}
	if len(rData) > 0 {
		e.RData = cp(rData)
	}
	r.L.Add(e)
}

func (r *RefRec) CaptureState(pc uint64, op evm.OpCode, gas, cost uint64, scope *evm.ScopeContext, rData []byte, depth int, err error) {
	if r.inner != nil {
		r.inner.CaptureState(pc, op, gas, cost, scope, rData, depth, err)
	}
	r.step(evStep, pc, byte(op), gas, cost, scope, rData, depth, err)
}

func (r *RefRec) CaptureFault(pc uint64, op evm.OpCode, gas, cost uint64, scope *evm.ScopeContext, depth int, err error) {
	if r.inner != nil {
		r.inner.CaptureFault(pc, op, gas, cost, scope, depth, err)
	}
	r.step(evFault, pc, byte(op), gas, cost, scope, nil, depth, err)
}
