#!/bin/bash
# Offline setup: build the simulator (plain and -race) once; warms the Go build cache.
set -e
export GOFLAGS=-mod=mod GOPROXY=off GOSUMDB=off GOTOOLCHAIN=local
ROOT="$(cd "$(dirname "$0")" && pwd)"
mkdir -p "$ROOT/bin" "$ROOT/evidence" "$ROOT/replays"
cp /repo/go.sum "$ROOT/sim/go.sum"
cd "$ROOT/sim"
go build -tags verif -o "$ROOT/bin/artsim" .
go build -tags verif -race -o "$ROOT/bin/artsim-race" .
echo "artsim built"
