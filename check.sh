#!/bin/bash
# usage: check.sh <property> <quick|thorough>   (cwd = /verif)
# Rebuilds the simulator against /repo's current working tree, then runs the check.
# exit 0 = held, 1 = VIOLATION line printed, 2 = build/harness trouble.
set -u
export GOFLAGS=-mod=mod GOPROXY=off GOSUMDB=off GOTOOLCHAIN=local
ROOT="$(cd "$(dirname "$0")" && pwd)"
export VERIF_ROOT="$ROOT"
mkdir -p "$ROOT/bin" "$ROOT/evidence" "$ROOT/replays"
cp /repo/go.sum "$ROOT/sim/go.sum" 2>/dev/null
(
  flock 9
  cd "$ROOT/sim" && go build -tags verif -o "$ROOT/bin/artsim" . 
) 9>"$ROOT/bin/.build.lock" || { echo "build failed" >&2; exit 2; }
if [ "${1:-}" = "replay" ]; then
  exec "$ROOT/bin/artsim" replay "$2"
fi
exec "$ROOT/bin/artsim" check "$1" "${2:-quick}"
