#!/bin/bash
# usage: check.sh <property> <quick|thorough>   |   check.sh replay <file>      (cwd = /verif)
# Rebuilds the simulator against /repo's current working tree (hooks tag on), then runs
# the check.  exit 0 = held, 1 = VIOLATION line printed, 2 = build/harness trouble.
# VERIF_REPO=<dir> builds against another checkout instead (background soak runs against
# a snapshot of /repo while /repo itself is being edited); registered commands never set it.
set -u
export GOFLAGS=-mod=mod GOPROXY=off GOSUMDB=off GOTOOLCHAIN=local
ROOT="$(cd "$(dirname "$0")" && pwd)"
export VERIF_ROOT="$ROOT"
REPO="${VERIF_REPO:-/repo}"
mkdir -p "$ROOT/bin" "$ROOT/evidence" "$ROOT/replays"
cp "$REPO/go.sum" "$ROOT/sim/go.sum" 2>/dev/null
MODFLAG=""
if [ "$REPO" != "/repo" ]; then
  sed "s#=> /repo\$#=> $REPO#" "$ROOT/sim/go.mod" > "$ROOT/bin/alt.go.mod"
  cp "$REPO/go.sum" "$ROOT/bin/alt.go.sum"
  MODFLAG="-modfile=$ROOT/bin/alt.go.mod"
fi
NEED_RACE=0
if [ "${1:-}" = "C17" ]; then NEED_RACE=1; fi
if [ "${1:-}" = "replay" ] && grep -q '"rule": "C17.race' "${2:-/dev/null}" 2>/dev/null; then NEED_RACE=1; fi
(
  flock 9
  cd "$ROOT/sim" || exit 2
  go build $MODFLAG -tags verif -o "$ROOT/bin/artsim" . || exit 2
  if [ "$NEED_RACE" = 1 ]; then
    go build $MODFLAG -tags verif -race -o "$ROOT/bin/artsim-race" . || exit 2
  fi
) 9>"$ROOT/bin/.build.lock" || { echo "build failed" >&2; exit 2; }
if [ "${1:-}" = "replay" ]; then
  exec "$ROOT/bin/artsim" replay "$2"
fi
exec "$ROOT/bin/artsim" check "$1" "${2:-quick}"
